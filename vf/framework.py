"""Check driver: runs a property's tasks in worker processes, replays counterexamples on the
unmodified public API (fresh process, JIT on), matches them against known_findings.json,
writes the evidence file and decides the exit status.

exit 0  property held on everything explored (known findings are printed, not alarms)
exit 1  VIOLATION property=<id> replay=<path>   (replayed counterexample not in known findings)
exit 2  inconclusive core obligation (solver unknown / exploration truncated) -- not success
exit 3  harness error
"""

from __future__ import annotations

import hashlib
import json
import multiprocessing as mp
import multiprocessing.connection  # noqa: F401
import os
import subprocess
import sys
import time
import traceback

VERIF = os.path.dirname(os.path.dirname(os.path.abspath(__file__)))
REPO = os.environ.get("VERIF_REPO", "/repo")
SEED = int(os.environ.get("VERIF_SEED", "0") or 0)


def _model_to_dict(model, limit=200):
    import z3

    out = {}
    if model is None:
        return out
    for d in model.decls()[:limit]:
        if d.arity() == 0:
            v = model[d]
            out[d.name()] = str(v)
    return out


class Report:
    """Plain-data result of one task (picklable)."""

    def __init__(self, task):
        self.task = task
        self.queries = []  # dicts: name, verdict, secs, tags
        self.reach = []
        self.functions = {}
        self.assumptions = []
        self.outside = []
        self.bounds = {}
        self.paths = {}
        self.notes = []
        self.cex = []  # dicts: name, cls, case, replay (function name), must_hold
        self.samples = []
        self.error = None
        self.solver_time = 0.0
        self.wall = 0.0
        self.unsupported = []
        self.truncated = False
        self.cross = {}


def _run_task(args):
    modname, fname, kwargs, tier, timeout_ms = args
    os.environ["NUMBA_DISABLE_JIT"] = "1"
    rep = Report(f"{fname}{kwargs if kwargs else ''}")
    t0 = time.time()
    try:
        import importlib

        from . import solve

        mod = importlib.import_module(modname)
        sess = solve.Session(modname, timeout_ms=timeout_ms)
        sess.tier = tier
        sess.cex = []
        sess.samples = []
        sess.unsupported = []
        sess.truncated = False
        solve.CURRENT = sess
        try:
            getattr(mod, fname)(sess, **kwargs)
        except Exception as e:  # noqa: BLE001
            if type(e).__name__ != "TaskAbandoned":
                raise
        for q in sess.results:
            rep.queries.append({"name": q.name, "verdict": q.verdict, "secs": round(q.secs, 3), "tags": q.tags})
        for q in sess.reach:
            rep.reach.append({"name": q.name, "verdict": q.verdict, "secs": round(q.secs, 3)})
        rep.functions = sess.functions
        rep.assumptions = sess.assumptions
        rep.outside = sess.outside
        rep.bounds = sess.bounds
        rep.paths = sess.paths
        rep.notes = sess.notes
        rep.cex = sess.cex
        rep.samples = sess.samples
        rep.solver_time = sess.solver_time
        rep.unsupported = sess.unsupported
        rep.truncated = sess.truncated
        rep.cross = sess.cross
    except BaseException as e:  # noqa: BLE001 - harness fault, reported as such
        rep.error = f"{type(e).__name__}: {e}\n{traceback.format_exc()}"
    rep.wall = time.time() - t0
    return rep


def run_tasks(modname, tasks, tier, timeout_ms, workers=None):
    workers = workers or min(16, max(1, os.cpu_count() or 1))
    args = [(modname, f, kw, tier, timeout_ms) for f, kw in tasks]
    if len(args) == 1 or workers == 1:
        return [_run_task(a) for a in args]
    # one forked process per task; a worker that dies (killed by the kernel, a crash inside a solver) becomes a
    # harness error of that task instead of a pool that waits for ever
    import concurrent.futures as cf

    ctxm = mp.get_context("fork")
    reports = [None] * len(args)
    pending = list(enumerate(args))
    running = {}
    cap = float(os.environ.get("VERIF_TASK_WALL_S", "7200"))

    def child(conn, a):
        try:
            import resource

            lim = int(os.environ.get("VERIF_TASK_MEMORY_MB", "12000")) << 20
            resource.setrlimit(resource.RLIMIT_AS, (lim, lim))
        except Exception:  # noqa: BLE001
            pass
        conn.send(_run_task(a))
        conn.close()

    n_par = min(workers, len(args))
    while pending or running:
        while pending and len(running) < n_par:
            i, a = pending.pop(0)
            rx, tx = ctxm.Pipe(duplex=False)
            pr = ctxm.Process(target=child, args=(tx, a))
            pr.start()
            tx.close()
            running[i] = (pr, rx, time.time(), a)
        mp.connection.wait([rx for _, rx, _, _ in running.values()], timeout=5)
        for i in list(running):
            pr, rx, t0, a = running[i]
            rep = None
            if rx.poll():
                try:
                    rep = rx.recv()
                except (EOFError, OSError):
                    rep = None
                    pr.join(5)
                    rep = Report(f"{a[1]}{a[2] if a[2] else ''}")
                    rep.error = f"worker process died without a result (exit code {pr.exitcode}): killed or crashed"
            elif not pr.is_alive():
                rep = Report(f"{a[1]}{a[2] if a[2] else ''}")
                rep.error = f"worker process died without a result (exit code {pr.exitcode}): killed or crashed"
            elif time.time() - t0 > cap:
                pr.kill()
                rep = Report(f"{a[1]}{a[2] if a[2] else ''}")
                rep.error = f"task exceeded the wall-clock cap of {cap:.0f} s and was stopped"
            if rep is not None:
                reports[i] = rep
                pr.join(5)
                rx.close()
                del running[i]
    return reports


# ---------------------------------------------------------------------------------------


def load_known():
    p = os.path.join(VERIF, "known_findings.json")
    if not os.path.exists(p):
        return {"findings": [], "fixed": []}
    with open(p) as f:
        return json.load(f)


def match_known(prop, cls, known):
    for k in known.get("findings", []):
        if k.get("property") != prop:
            continue
        m = k.get("match", {})
        if all(cls.get(key) == val for key, val in m.items()):
            return k
    return None


def replay_cases(cases):
    """Run replay functions in a fresh interpreter with the JIT enabled (what users run)."""
    if not cases:
        return []
    env = dict(os.environ)
    env.pop("NUMBA_DISABLE_JIT", None)
    env["PYTHONPATH"] = os.pathsep.join([x for x in (os.environ.get("VERIF_PYDREX_SRC"), VERIF, env.get("PYTHONPATH", "")) if x])
    env["NUMBA_CACHE_DIR"] = os.path.join(VERIF, ".numba_cache")
    py = os.path.join(VERIF, ".venv", "bin", "python")
    p = subprocess.run(
        [py, "-m", "vf.replay"], input=json.dumps(cases), capture_output=True, text=True, env=env, timeout=3600
    )
    if p.returncode != 0:
        raise RuntimeError("replay process failed:\n" + p.stdout[-2000:] + p.stderr[-4000:])
    line = [l for l in p.stdout.splitlines() if l.startswith("REPLAY-RESULTS ")][-1]
    return json.loads(line[len("REPLAY-RESULTS ") :])


def finish(prop, tier, reports, t0, level="model_checking", extra_cov=None, must_reach=True, mod=None):
    """Aggregate reports -> evidence, findings, exit code."""
    known = load_known()
    errors = [r for r in reports if r.error]
    queries = [q for r in reports for q in r.queries]
    reach = [q for r in reports for q in r.reach]
    counts = {"unsat": 0, "sat": 0, "unknown": 0}
    for q in queries:
        counts[q["verdict"]] = counts.get(q["verdict"], 0) + 1
    cex = [c for r in reports for c in r.cex]
    # verdicts without a specific counterexample (sat, or unknown on a must-hold claim) get the property's
    # generic public-API replay: only what reproduces on the real code is ever reported
    if mod is not None and hasattr(mod, "default_cex"):
        have = {c["name"] for c in cex}
        first = {}
        for q in queries:
            tags = q.get("tags") or {}
            if q["name"] in have or q["verdict"] not in ("sat", "unknown") or tags.get("aux") or tags.get("hypothesis") or tags.get("allow_sat"):
                continue
            if q["verdict"] == "unknown" and tags.get("optional"):
                continue
            d = mod.default_cex(q["name"])
            if not d:
                continue
            ce = {"name": q["name"], "case": d.get("case", {}), "cls": d["cls"], "from_unknown": q["verdict"] == "unknown"}
            key = json.dumps([d["replay"], d.get("case", {})], sort_keys=True, default=str)
            if key not in first:
                first[key] = q["name"]
                ce["replay"] = d["replay"]
            else:
                ce["same_as"] = first[key]
            cex.append(ce)
            have.add(q["name"])
    # replay every counterexample before anything is said about it
    replay_in = [c for c in cex if c.get("replay")]
    results = []
    harness_error = None
    if replay_in:
        try:
            results = replay_cases(replay_in)
        except Exception as e:  # noqa: BLE001
            harness_error = f"replay failed: {e}"
            results = [{"reproduced": None, "detail": "replay harness error"} for _ in replay_in]
    for c, r in zip(replay_in, results):
        c["replay_result"] = r
    by_name = {c["name"]: c for c in replay_in}
    for c in cex:
        if c.get("same_as") and c["same_as"] in by_name:  # further solver witnesses of an already replayed failure class
            c["replay_result"] = by_name[c["same_as"]].get("replay_result")
    lines = []
    violations = []
    known_hits = {}
    spurious = []
    for c in cex:
        rr = c.get("replay_result")
        if rr is None or rr.get("reproduced") is None:
            spurious.append(c)
            continue
        if not rr["reproduced"]:
            if not c.get("from_unknown") and not c.get("hypothesis"):
                spurious.append(c)
            continue
        k = match_known(prop, c.get("cls", {}), known)
        if k is not None:
            known_hits.setdefault(k["id"], (k, []))[1].append(c)
        else:
            violations.append(c)
    os.makedirs(os.path.join(VERIF, "replays", prop), exist_ok=True)
    for kid, (k, cs) in known_hits.items():
        lines.append(f"KNOWN-FINDING: property={prop} {k['what']} [{kid}; {len(cs)} replayed witness(es)]")
    vio_paths = []
    for c in violations:
        h = hashlib.sha256(json.dumps(c.get("case"), sort_keys=True, default=str).encode()).hexdigest()[:12]
        path = os.path.join(VERIF, "replays", prop, f"{h}.json")
        with open(path, "w") as f:
            json.dump(c, f, indent=1, default=str)
        vio_paths.append(path)
        lines.append(f"VIOLATION property={prop} replay={path}")
    # a spurious model on a must-hold obligation is inconclusive (encoding too weak there)
    inconclusive = [q["name"] for q in queries if q["verdict"] == "unknown"]
    reproduced_names = {c["name"] for c in violations} | {c["name"] for _, cs in known_hits.values() for c in cs}
    inconclusive_core = [q["name"] for q in queries if q["verdict"] == "unknown" and not (q.get("tags") or {}).get("optional")
                         and q["name"] not in reproduced_names]
    spurious_core = [c["name"] for c in spurious if c.get("must_hold", True)]
    cex_names = {c["name"] for c in cex}
    def _free_sat(q):
        t = q.get("tags") or {}
        return t.get("aux") or t.get("hypothesis") or t.get("allow_sat")

    unexplained_sat = [q["name"] for q in queries if q["verdict"] == "sat" and q["name"] not in cex_names and not _free_sat(q)]
    unreached = [q["name"] for q in reach if q["verdict"] != "sat"]
    truncated = [r.task for r in reports if r.truncated]
    unsupported = sorted({u for r in reports for u in r.unsupported})

    funcs, assumptions, outside, bounds, paths, notes, samples = {}, [], [], {}, {}, [], []
    for r in reports:
        funcs.update(r.functions)
        for a in r.assumptions:
            if a not in assumptions:
                assumptions.append(a)
        for a in r.outside:
            if a not in outside:
                outside.append(a)
        bounds.update(r.bounds)
        paths.update(r.paths)
        notes.extend(r.notes)
        samples.extend(r.samples[:3])
    distinct = len({q["name"] for q in queries if q["verdict"] in ("unsat", "sat") and not (q.get("tags") or {}).get("concrete_claim")})
    concrete = len({q["name"] for q in queries if (q.get("tags") or {}).get("concrete_claim")})
    wall = time.time() - t0
    cov = {
        "evaluations": len(queries) + len(reach),
        "distinct_nontrivial": distinct,
        "rule": "one evaluation = one SMT query (negated claim under a path condition, or a reachability witness); "
        "distinct_nontrivial = distinctly named obligations with a symbolic claim that the solver decided (obligations whose claim "
        "had already been evaluated to a concrete truth value by the run -- bookkeeping facts, finite tables -- are counted separately "
        "under concrete_obligations)",
        "concrete_obligations": concrete,
        "samples": (samples[:6] or [q for q in queries[:3]]),
        "functions_encoded": funcs,
        "bounds": bounds,
        "paths": paths,
        "queries": counts,
        "reachability_witnesses": {"total": len(reach), "sat": sum(1 for q in reach if q["verdict"] == "sat")},
        "solver_time_s": round(sum(r.solver_time for r in reports), 2),
        "second_solver_cross_check": {
            "solver": "cvc5 (python wheel) on the SMT-LIB text of a deterministic sample of the queries z3 decided; 2 s per query, time-capped per task",
            **{k: (round(sum(r.cross.get(k, 0) for r in reports), 1)) for k in ("run", "agree", "disagree", "cvc5_unknown", "cvc5_error", "secs")},
            "disagreements": [d for r in reports for d in r.cross.get("disagreements", [])],
        },
        "task_wall_s": {r.task: round(r.wall, 1) for r in reports},
        "inconclusive": inconclusive,
        "sat_without_replayable_counterexample": unexplained_sat,
        "spurious_models": [c["name"] for c in spurious],
        "unsupported_paths": unsupported,
        "outside_claim": outside,
        "known_findings_hit": sorted(known_hits),
        "counterexamples_replayed": len(replay_in),
        "counterexamples_reproduced": sum(1 for c in replay_in if (c.get("replay_result") or {}).get("reproduced")),
        "notes": notes,
        "exhaustive": False,
    }
    if extra_cov:
        cov.update(extra_cov)
    ev = {
        "property_id": prop,
        "tier": tier,
        "seed": SEED,
        "level": level,
        "coverage": cov,
        "assumptions": assumptions,
        "wall_s": round(wall, 2),
        "violations": len(violations),
    }
    # runs against a seeded scratch tree (tools/try_seed2.sh) write elsewhere so that evidence/ always describes /repo
    evdir = os.environ.get("VERIF_EVIDENCE_DIR") or os.path.join(VERIF, "evidence")
    os.makedirs(evdir, exist_ok=True)
    with open(os.path.join(evdir, f"{prop}.json"), "w") as f:
        json.dump(ev, f, indent=1, default=str)
    for l in lines:
        print(l)
    print(
        f"[{prop}/{tier}] queries={counts} reach={cov['reachability_witnesses']} known={sorted(known_hits)} "
        f"violations={len(violations)} spurious={len(spurious)} wall={wall:.1f}s"
    )
    if errors or harness_error:
        for r in errors:
            print(f"HARNESS-ERROR in task {r.task}:\n{r.error}", file=sys.stderr)
        if harness_error:
            print("HARNESS-ERROR " + harness_error, file=sys.stderr)
        return 3
    if violations:
        return 1
    if inconclusive_core or spurious_core or (must_reach and unreached) or truncated or unexplained_sat:
        print(
            f"INCONCLUSIVE property={prop} unknown={inconclusive_core} spurious={spurious_core} unreached={unreached} "
            f"truncated={truncated} sat_without_replay={unexplained_sat}"
        )
        return 2
    return 0
