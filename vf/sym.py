"""symx core: symbolic reals / booleans / ints over z3 terms and the path explorer.

The real PyDRex source is executed by the ordinary Python interpreter on these values.
`SymBool.__bool__` is the only place where execution forks; exploration is depth first by
decision replay (re-run with a recorded prefix of decisions, flip the last open one).
"""

from __future__ import annotations

import math
import time
from fractions import Fraction

import numpy as np
import z3

# --------------------------------------------------------------------------------------
# exceptions used to steer exploration -- BaseException so that `except Exception` /
# `except ValueError` blocks in the code under analysis never swallow them.


class PathAbort(BaseException):
    """The current path is infeasible or was cut deliberately."""


class Unsupported(BaseException):
    """An operation outside the modelled fragment was attempted (never counted as success)."""


class HarnessError(Exception):
    pass


INF = float("inf")

# --------------------------------------------------------------------------------------
# current path context

_CTX = None


def ctx() -> "PathCtx":
    if _CTX is None:
        raise HarnessError("symbolic operation outside of an exploration context")
    return _CTX


def have_ctx():
    return _CTX is not None


_RV_CACHE = {}


def _realval(fr: Fraction):
    r = _RV_CACHE.get(fr)
    if r is None:
        r = z3.RealVal(str(fr.numerator)) if fr.denominator == 1 else z3.Q(fr.numerator, fr.denominator)
        if len(_RV_CACHE) < 100000:
            _RV_CACHE[fr] = r
    return r


def to_fraction(x):
    """Exact rational value of a concrete Python / numpy number (None if not numeric)."""
    if isinstance(x, Fraction):
        return x
    if isinstance(x, (bool, np.bool_)):
        return Fraction(int(x))
    if isinstance(x, (int, np.integer)):
        return Fraction(int(x))
    if isinstance(x, (float, np.floating)):
        x = float(x)
        if math.isinf(x) or math.isnan(x):
            return x
        return Fraction(x)
    return None


# --------------------------------------------------------------------------------------


class SymBool:
    """Boolean: concrete (bool payload) or a z3 BoolRef. Forks in __bool__."""

    __slots__ = ("v",)
    __array_ufunc__ = None

    def __init__(self, v):
        if isinstance(v, SymBool):
            v = v.v
        if isinstance(v, (bool, np.bool_)):
            v = bool(v)
        elif z3.is_true(v):
            v = True
        elif z3.is_false(v):
            v = False
        self.v = v

    @property
    def concrete(self):
        return isinstance(self.v, bool)

    def z3(self):
        return z3.BoolVal(self.v) if isinstance(self.v, bool) else self.v

    def __bool__(self):
        if isinstance(self.v, bool):
            return self.v
        return ctx().branch(self.v)

    def __and__(self, o):
        o = as_symbool(o)
        if isinstance(self.v, bool):
            return o if self.v else SymBool(False)
        if isinstance(o.v, bool):
            return self if o.v else SymBool(False)
        return SymBool(z3.And(self.v, o.v))

    __rand__ = __and__

    def __or__(self, o):
        o = as_symbool(o)
        if isinstance(self.v, bool):
            return SymBool(True) if self.v else o
        if isinstance(o.v, bool):
            return SymBool(True) if o.v else self
        return SymBool(z3.Or(self.v, o.v))

    __ror__ = __or__

    def __invert__(self):
        if isinstance(self.v, bool):
            return SymBool(not self.v)
        return SymBool(z3.Not(self.v))

    def __eq__(self, o):
        o = as_symbool(o)
        if isinstance(self.v, bool) and isinstance(o.v, bool):
            return SymBool(self.v == o.v)
        return SymBool(self.z3() == o.z3())

    def __ne__(self, o):
        return ~(self == o)

    __hash__ = None

    def __repr__(self):
        return f"SymBool({self.v})"

    def astype(self, t):
        if t in (float, np.float64):
            return ite(self, R(1), R(0))
        raise Unsupported(f"SymBool.astype({t})")


def as_symbool(x):
    if isinstance(x, SymBool):
        return x
    if isinstance(x, (bool, np.bool_)):
        return SymBool(bool(x))
    if isinstance(x, z3.BoolRef):
        return SymBool(x)
    if isinstance(x, R):  # numeric truthiness
        return x != 0
    if _is_num(x):
        return SymBool(bool(x != 0))
    raise Unsupported(f"cannot use {type(x)} as boolean")


def sym_and(items):
    out = SymBool(True)
    for b in items:
        out = out & as_symbool(b)
    return out


def sym_or(items):
    out = SymBool(False)
    for b in items:
        out = out | as_symbool(b)
    return out


# --------------------------------------------------------------------------------------


def _is_num(x):
    return isinstance(x, (int, float, Fraction, np.integer, np.floating, bool, np.bool_))


class R:
    """Real number: exact rational, +-inf (only the IEEE-exact operations), or a z3 real term."""

    __slots__ = ("v",)
    # deliberately no __array_priority__ / __array_ufunc__ (see DESIGN 2.8)

    def __init__(self, v):
        if isinstance(v, R):
            v = v.v
        elif isinstance(v, z3.ExprRef):
            if z3.is_rational_value(v):
                v = Fraction(v.numerator_as_long(), v.denominator_as_long())
            elif z3.is_int(v):
                v = z3.ToReal(v)
        else:
            f = to_fraction(v)
            if f is None:
                raise Unsupported(f"cannot make a symbolic real from {type(v)}: {v!r}")
            if isinstance(f, float) and math.isnan(f):
                raise Unsupported("NaN constant")
            v = f
        self.v = v

    # ---- classification
    @property
    def concrete(self):
        return not isinstance(self.v, z3.ExprRef)

    @property
    def isinf(self):
        return isinstance(self.v, float)

    def z3(self):
        if isinstance(self.v, Fraction):
            return _realval(self.v)
        if isinstance(self.v, float):
            raise Unsupported("infinite value used in a symbolic expression")
        return self.v

    def frac(self):
        if isinstance(self.v, Fraction):
            return self.v
        raise HarnessError("not a concrete rational")

    # ---- arithmetic
    @staticmethod
    def _coerce(o):
        if isinstance(o, R):
            return o
        if _is_num(o):
            return R(o)
        if isinstance(o, SymInt):
            return R(o.z3r())
        return None

    def __add__(self, o):
        o = R._coerce(o)
        if o is None:
            return NotImplemented
        a, b = self.v, o.v
        if isinstance(a, float) or isinstance(b, float):
            if isinstance(a, z3.ExprRef) or isinstance(b, z3.ExprRef):
                raise Unsupported("inf + symbolic")
            r = float(a) + float(b)
            if math.isnan(r):
                raise Unsupported("inf - inf")
            return R(r)
        if isinstance(a, Fraction) and isinstance(b, Fraction):
            return R(a + b)
        if isinstance(a, Fraction) and a == 0:
            return o
        if isinstance(b, Fraction) and b == 0:
            return self
        return R(self.z3() + o.z3())

    __radd__ = __add__

    def __neg__(self):
        if isinstance(self.v, z3.ExprRef):
            return R(-self.v)
        return R(-self.v)

    def __pos__(self):
        return self

    def __sub__(self, o):
        o = R._coerce(o)
        if o is None:
            return NotImplemented
        a, b = self.v, o.v
        if not isinstance(a, z3.ExprRef) and not isinstance(b, z3.ExprRef):
            return self + (-o)
        if isinstance(b, Fraction) and b == 0:
            return self
        if isinstance(a, Fraction) and a == 0:
            return -o
        if isinstance(a, float) or isinstance(b, float):
            raise Unsupported("inf - symbolic")
        return R(self.z3() - o.z3())

    def __rsub__(self, o):
        o = R._coerce(o)
        if o is None:
            return NotImplemented
        return o - self

    def __mul__(self, o):
        o = R._coerce(o)
        if o is None:
            return NotImplemented
        a, b = self.v, o.v
        if isinstance(a, Fraction) and isinstance(b, Fraction):
            return R(a * b)
        if isinstance(a, float) or isinstance(b, float):
            if isinstance(a, z3.ExprRef) or isinstance(b, z3.ExprRef):
                raise Unsupported("inf * symbolic")
            r = float(a) * float(b)
            if math.isnan(r):
                raise Unsupported("0 * inf")
            return R(r)
        if isinstance(a, Fraction):
            if a == 0:
                return R(0)
            if a == 1:
                return o
            if a == -1:
                return -o
        if isinstance(b, Fraction):
            if b == 0:
                return R(0)
            if b == 1:
                return self
            if b == -1:
                return -self
        return R(self.z3() * o.z3())

    __rmul__ = __mul__

    def __truediv__(self, o):
        o = R._coerce(o)
        if o is None:
            return NotImplemented
        a, b = self.v, o.v
        if isinstance(b, float):  # x / +-inf == 0 exactly for every finite x (IEEE)
            if isinstance(a, float):
                raise Unsupported("inf / inf")
            if isinstance(a, z3.ExprRef):
                return R(0)
            return R(0)
        if isinstance(b, Fraction):
            if b == 0:
                if isinstance(a, float):
                    raise Unsupported("inf / 0")
                ctx().definedness("division by literal zero", z3.BoolVal(False))
                raise PathAbort("division by zero on every input of this path")
            if isinstance(a, Fraction):
                return R(a / b)
            if isinstance(a, float):
                return R(a if b > 0 else -a)
            if b == 1:
                return self
            return R(self.z3() * _realval(1 / b))
        # symbolic denominator: definedness obligation, then continue under den != 0
        if isinstance(a, float):
            raise Unsupported("inf / symbolic")
        sc = ctx().ufs.sqrt_consts.get(b.get_id())
        if sc is not None and sc[1] > 0:  # x / sqrt(c) = x sqrt(c) / c for a positive constant c (rationalised)
            return self * o * R(1 / sc[1])
        ctx().definedness("division by zero", o.z3() != 0)
        if isinstance(a, Fraction) and a == 0:
            return R(0)
        return R(self.z3() / o.z3())

    def __rtruediv__(self, o):
        o = R._coerce(o)
        if o is None:
            return NotImplemented
        return o / self

    def __pow__(self, e):
        if isinstance(e, (int, np.integer)) and not isinstance(e, bool):
            e = int(e)
            if e == 0:
                return R(1)
            if e < 0:
                return R(1) / (self ** (-e))
            if self.concrete and not self.isinf:
                return R(self.v**e)
            out = self
            for _ in range(e - 1):
                out = out * self
            return out
        e = R._coerce(e)
        if e is None:
            return NotImplemented
        if e.concrete and not e.isinf and e.v.denominator == 1:
            return self ** int(e.v)
        return ctx().ufs.pow(self, e)

    def __rpow__(self, b):
        b = R._coerce(b)
        if b is None:
            return NotImplemented
        return b**self

    def __abs__(self):
        if self.concrete:
            return R(abs(self.v))
        e = self.z3()
        # canonical sign: |e| and |-e| become the same term
        if z3.is_app(e) and e.decl().kind() == z3.Z3_OP_UMINUS:
            e = e.children()[0]
        else:
            e = _canon_sign(e)
        return R(z3.If(e >= 0, e, -e))

    def sqrt(self):
        return ctx().ufs.sqrt(self)

    def exp(self):
        return ctx().ufs.exp(self)

    def sin(self):
        return ctx().ufs.trig("sin", self)

    def cos(self):
        return ctx().ufs.trig("cos", self)

    def arccos(self):
        return ctx().ufs.arccos(self)

    def arcsin(self):
        return ctx().ufs.arcsin(self)

    def arctan(self):
        return ctx().ufs.generic("arctan", self)

    def rad2deg(self):
        return self * R(Fraction(180.0) / Fraction(math.pi))

    def deg2rad(self):
        return self * R(Fraction(math.pi) / Fraction(180.0))

    def conjugate(self):
        return self

    # ---- comparisons
    def _cmp(self, o, op):
        o = R._coerce(o)
        if o is None:
            return NotImplemented
        a, b = self.v, o.v
        if not isinstance(a, z3.ExprRef) and not isinstance(b, z3.ExprRef):
            return SymBool(
                {"lt": a < b, "le": a <= b, "gt": a > b, "ge": a >= b, "eq": a == b, "ne": a != b}[op]
            )
        if isinstance(a, float) or isinstance(b, float):
            # symbolic (finite) vs infinity
            inf_side = a if isinstance(a, float) else b
            pos = inf_side > 0
            sym_left = isinstance(a, z3.ExprRef)
            if op == "eq":
                return SymBool(False)
            if op == "ne":
                return SymBool(True)
            less = (sym_left and pos) or ((not sym_left) and (not pos))
            return SymBool(less if op in ("lt", "le") else (not less))
        x, y = self.z3(), o.z3()
        return SymBool({"lt": x < y, "le": x <= y, "gt": x > y, "ge": x >= y, "eq": x == y, "ne": x != y}[op])

    def __lt__(self, o):
        return self._cmp(o, "lt")

    def __le__(self, o):
        return self._cmp(o, "le")

    def __gt__(self, o):
        return self._cmp(o, "gt")

    def __ge__(self, o):
        return self._cmp(o, "ge")

    def __eq__(self, o):
        return self._cmp(o, "eq")

    def __ne__(self, o):
        return self._cmp(o, "ne")

    __hash__ = None

    def __bool__(self):
        # Python truthiness of a number (`if x:`, np.count_nonzero / np.nonzero on object arrays): forks on x != 0.
        # Without this a symbolic real was silently truthy -- a hidden concretisation (seed C20-f went through it).
        return bool(self.v != 0) if self.concrete else bool(self != 0)

    def __float__(self):
        if self.concrete:
            return float(self.v)
        raise Unsupported("float() of a symbolic real (a C boundary was reached)")

    def __int__(self):
        if self.concrete and not self.isinf and self.v.denominator == 1:
            return int(self.v)
        raise Unsupported("int() of a symbolic real")

    __index__ = __int__

    def __repr__(self):
        if self.concrete:
            return f"R({self.v})"
        s = str(self.v)
        return "R(" + (s if len(s) < 80 else s[:77] + "...") + ")"


def _small(t, limit=60):
    """True if the term DAG has at most `limit` nodes (bounded walk)."""
    seen = set()
    stack = [t]
    while stack:
        x = stack.pop()
        k = x.get_id()
        if k in seen:
            continue
        seen.add(k)
        if len(seen) > limit:
            return False
        stack.extend(x.children())
    return True


_CANON = None


def _canon_sign(e):
    """For small polynomial terms: expand, and flip the overall sign so that the leading coefficient
    is positive; e and -e then yield the same canonical term. Larger terms are returned unchanged."""
    global _CANON
    if not _small(e):
        return e
    from . import poly

    if _CANON is None or len(_CANON.atoms.terms) > 5000:
        _CANON = poly.Normaliser()
    n, d = _CANON.ratfun(e)
    if d != poly.p_const(1) or not n:
        return e
    lead = min(n.items(), key=lambda kv: (len(kv[0]), kv[0]))
    if lead[1] < 0:
        n = poly.p_scale(n, -1)
    return _CANON.to_z3(n)


def ite(c, a, b):
    c = as_symbool(c)
    if c.concrete:
        return a if c.v else b
    if isinstance(a, SymBool) or isinstance(b, SymBool) or isinstance(a, (bool, np.bool_)):
        a, b = as_symbool(a), as_symbool(b)
        return SymBool(z3.If(c.v, a.z3(), b.z3()))
    a, b = R(a), R(b)
    if a.concrete and b.concrete and a.v == b.v:
        return a
    if not a.concrete and not b.concrete and a.v.eq(b.v):
        return a  # both branches are the same term
    return R(z3.If(c.v, a.z3(), b.z3()))


def rmax(a, b):
    a, b = R(a), R(b)
    return ite(a >= b, a, b)


def rmin(a, b):
    a, b = R(a), R(b)
    return ite(a <= b, a, b)


def rsign(a):
    a = R(a)
    if a.concrete:
        return R((a.v > 0) - (a.v < 0))
    e = a.z3()
    return R(z3.If(e > 0, _realval(Fraction(1)), z3.If(e < 0, _realval(Fraction(-1)), _realval(Fraction(0)))))


# --------------------------------------------------------------------------------------


class SymInt:
    """Integer (ordinals, counts, extents): concrete int or a z3 Int term."""

    __slots__ = ("v",)
    __array_ufunc__ = None

    def __init__(self, v):
        if isinstance(v, SymInt):
            v = v.v
        if isinstance(v, z3.ExprRef) and z3.is_int_value(v):
            v = v.as_long()
        if isinstance(v, (int, np.integer)):
            v = int(v)
        self.v = v

    @property
    def concrete(self):
        return isinstance(self.v, int)

    def z3(self):
        return z3.IntVal(self.v) if isinstance(self.v, int) else self.v

    def z3r(self):
        return z3.ToReal(self.z3())

    @staticmethod
    def _co(o):
        if isinstance(o, SymInt):
            return o
        if isinstance(o, (int, np.integer)) and not isinstance(o, bool):
            return SymInt(int(o))
        return None

    def _bin(self, o, f, zf):
        o = SymInt._co(o)
        if o is None:
            return NotImplemented
        if self.concrete and o.concrete:
            return SymInt(f(self.v, o.v))
        return SymInt(zf(self.z3(), o.z3()))

    def __add__(self, o):
        return self._bin(o, lambda a, b: a + b, lambda a, b: a + b)

    __radd__ = __add__

    def __sub__(self, o):
        return self._bin(o, lambda a, b: a - b, lambda a, b: a - b)

    def __rsub__(self, o):
        o = SymInt._co(o)
        return o - self if o is not None else NotImplemented

    def __mul__(self, o):
        if isinstance(o, (R, float, Fraction)):
            return R(self.z3r()) * o
        return self._bin(o, lambda a, b: a * b, lambda a, b: a * b)

    __rmul__ = __mul__

    def __truediv__(self, o):
        return R(self.z3r()) / o

    def __rtruediv__(self, o):
        return R._coerce(o) / R(self.z3r())

    def _cmp(self, o, op):
        if isinstance(o, (R, float, Fraction)):
            return getattr(R(self.z3r()), f"__{op}__")(o)
        o = SymInt._co(o)
        if o is None:
            return NotImplemented
        if self.concrete and o.concrete:
            a, b = self.v, o.v
            return SymBool({"lt": a < b, "le": a <= b, "gt": a > b, "ge": a >= b, "eq": a == b, "ne": a != b}[op])
        x, y = self.z3(), o.z3()
        return SymBool({"lt": x < y, "le": x <= y, "gt": x > y, "ge": x >= y, "eq": x == y, "ne": x != y}[op])

    def __lt__(self, o):
        return self._cmp(o, "lt")

    def __le__(self, o):
        return self._cmp(o, "le")

    def __gt__(self, o):
        return self._cmp(o, "gt")

    def __ge__(self, o):
        return self._cmp(o, "ge")

    def __eq__(self, o):
        r = self._cmp(o, "eq")
        return SymBool(False) if r is NotImplemented else r

    def __ne__(self, o):
        r = self._cmp(o, "ne")
        return SymBool(True) if r is NotImplemented else r

    __hash__ = None

    def __bool__(self):
        # Python truthiness of an int (`seed or None`, `if n:`): forks on v != 0
        return bool(self.v) if self.concrete else bool(self != 0)

    def __index__(self):
        if self.concrete:
            return self.v
        raise Unsupported("symbolic integer used as an index/extent (C boundary)")

    __int__ = __index__

    def __repr__(self):
        return f"SymInt({self.v})"

    def __format__(self, spec):
        return repr(self)


# --------------------------------------------------------------------------------------
# Uninterpreted functions, Ackermannised: every application becomes a fresh real; the
# contract axioms of the function and pairwise congruence axioms are added to the path.


class UFs:
    def __init__(self, pathctx):
        self.c = pathctx
        self.apps = {}  # name -> list of (args tuple of z3 terms, result z3 term)
        self.sqrt_consts = {}
        self.inverse = {}  # id of result term -> (term, kind, args) for arccos / arcsin / arctan2 results
        self.done = set()

    def _fresh(self, name, args):
        key = (name,) + tuple(a.hash() for a in args)
        lst = self.apps.setdefault(name, [])
        for a2, r2, k2 in lst:
            if k2 == key and all(a.eq(b) for a, b in zip(args, a2)):
                return r2, False
        r = z3.Real(f"{name}!{len(lst)}!{abs(hash(key)) % 10**8}")
        # congruence with earlier applications of the same function
        for a2, r2, _ in lst:
            self.c.axiom(z3.Implies(z3.And(*[a == b for a, b in zip(args, a2)]), r == r2))
        lst.append((args, r, key))
        return r, True

    def generic(self, name, *xs):
        xs = [R(x) for x in xs]
        if all(x.concrete for x in xs) and name in _CONCRETE_FUNS:
            pass  # still symbolic: transcendental values are not rationals
        r, new = self._fresh(name, tuple(x.z3() for x in xs))
        return R(r)

    def sqrt(self, x):
        x = R(x)
        if x.concrete:
            if x.isinf:
                raise Unsupported("sqrt(inf)")
            if x.v < 0:
                ctx().definedness("sqrt of a negative number", z3.BoolVal(False))
                raise PathAbort("sqrt of negative constant")
            n, d = x.v.numerator, x.v.denominator
            rn, rd = math.isqrt(n), math.isqrt(d)
            if rn * rn == n and rd * rd == d:
                return R(Fraction(rn, rd))
        xe = x.z3()
        if not x.concrete and self.c.notes.get("canon_sqrt"):
            # canonical sum-of-monomials form (modulo s*s = c for the constant square roots s met so far, which the
            # path already assumes): polynomially equal arguments become the same term, hence the same application
            xe = self._canonical(xe)
        if not x.concrete:
            self.c.definedness("sqrt of a negative number", xe >= 0)
        r, new = self._fresh("sqrt", (xe,))
        if new:
            self.c.axiom(z3.And(r >= 0, r * r == xe))
        if x.concrete:
            self.sqrt_consts[r.get_id()] = (r, x.v)
        return R(r)

    def _canonical(self, xe):
        from . import poly

        st = self.c.notes.get("_canon_norm")
        if st is None:
            st = self.c.notes["_canon_norm"] = (poly.Normaliser(), set())
        norm, known = st
        for rid, (r, val) in list(self.sqrt_consts.items()):
            if rid not in known:
                known.add(rid)
                norm.pending_rules.append((r, val))
        try:
            num, den = norm.ratfun(xe)
        except HarnessError:
            return z3.simplify(xe, som=True, sort_sums=True)
        if den != poly.p_const(1):
            return z3.simplify(xe, som=True, sort_sums=True)
        return norm.to_z3(norm.reduce(num))

    def exp(self, x):
        x = R(x)
        if x.concrete and x.v == 0:
            return R(1)
        xe = x.z3()
        r, new = self._fresh("exp", (xe,))
        if new:
            self.c.axiom(r > 0)
            self.c.axiom(z3.Implies(xe == 0, r == 1))
            self.c.axiom(z3.Implies(xe <= 0, r <= 1))
            self.c.axiom(z3.Implies(xe >= 0, r >= 1))
        return R(r)

    def pow(self, b, e):
        """b ** e for a non-integer or symbolic exponent (real power, b >= 0 expected)."""
        b, e = R(b), R(e)
        if b.concrete and not b.isinf:
            if b.v == 1:
                return R(1)
            if b.v == 0:
                # 0.0 ** e: 0 for e > 0, 1 for e == 0, ZeroDivisionError / inf for e < 0
                if e.concrete:
                    if e.v > 0:
                        return R(0)
                    if e.v == 0:
                        return R(1)
                # 0.0 ** e: 0 for e > 0, 1 for e == 0, ZeroDivisionError for e < 0
                self.c.definedness("0.0 ** negative exponent", e.z3() >= 0)
                return R(z3.If(e.z3() > 0, _realval(Fraction(0)), _realval(Fraction(1))))
        if b.isinf:
            raise Unsupported("inf ** x")
        be, ee = b.z3(), e.z3()
        if not b.concrete:
            self.c.definedness("negative base of a real power", be >= 0)
        r, new = self._fresh("pow", (be, ee))
        if new:
            self.c.axiom(r >= 0)
            self.c.axiom(z3.Implies(ee > 0, (r == 0) == (be == 0)))
            self.c.axiom(z3.Implies(be == 1, r == 1))
            self.c.axiom(z3.Implies(ee == 1, r == be))
            self.c.axiom(z3.Implies(z3.And(ee == 0, be > 0), r == 1))
            # monotone in the base for positive exponents: b<=1 => r<=1 ; b>=1 => r>=1
            self.c.axiom(z3.Implies(z3.And(ee > 0, be <= 1), r <= 1))
            self.c.axiom(z3.Implies(z3.And(ee > 0, be >= 1), r >= 1))
        return R(r)

    def trig(self, name, x):
        x = R(x)
        if x.concrete and x.v == 0:
            return R(0) if name == "sin" else R(1)
        xe = x.z3()
        inv = self.inverse.get(xe.get_id()) if not x.concrete else None
        if inv is not None:
            kind, args = inv[1], inv[2]
            if kind == "arccos":  # cos(arccos t) = t ; sin(arccos t) = sqrt(1 - t^2) >= 0
                t = args[0]
                return t if name == "cos" else (1 - t * t).sqrt()
            if kind == "arcsin":
                t = args[0]
                return t if name == "sin" else (1 - t * t).sqrt()
            if kind == "arctan2":  # (cos, sin)(arctan2(y, x)) = (x, y)/sqrt(x^2 + y^2); any unit pair at the origin
                y, xx = args
                c, _ = self._fresh("cos", (xe,))
                s_, _ = self._fresh("sin", (xe,))
                rho = (xx * xx + y * y).sqrt()
                if ("a2", xe.get_id()) not in self.done:
                    self.done.add(("a2", xe.get_id()))
                    self.c.axiom(c * c + s_ * s_ == 1)
                    self.c.axiom(z3.And(c * rho.z3() == xx.z3(), s_ * rho.z3() == y.z3()))
                return R(c) if name == "cos" else R(s_)
        r, new = self._fresh(name, (xe,))
        other = "cos" if name == "sin" else "sin"
        r2, new2 = self._fresh(other, (xe,))
        if new or new2:
            self.c.axiom(r * r + r2 * r2 == 1)
        return R(r)

    def arccos(self, x):
        x = R(x)
        xe = x.z3()
        if not x.concrete:
            self.c.definedness("arccos argument outside [-1, 1]", z3.And(xe >= -1, xe <= 1))
        r, new = self._fresh("arccos", (xe,))
        if new:
            pi = _realval(Fraction(math.pi))
            self.c.axiom(z3.And(r >= 0, r <= pi))
            # strictly decreasing: congruence + order against earlier applications
            for a2, r2, _ in self.apps["arccos"][:-1]:
                self.c.axiom(z3.Implies(xe < a2[0], r > r2))
                self.c.axiom(z3.Implies(xe > a2[0], r < r2))
        self.inverse[r.get_id()] = (r, "arccos", (x,))
        return R(r)

    def arcsin(self, x):
        x = R(x)
        xe = x.z3()
        if not x.concrete:
            self.c.definedness("arcsin argument outside [-1, 1]", z3.And(xe >= -1, xe <= 1))
        r, new = self._fresh("arcsin", (xe,))
        self.inverse[r.get_id()] = (r, "arcsin", (x,))
        return R(r)

    def arctan2(self, y, x):
        y, x = R(y), R(x)
        r, new = self._fresh("arctan2", (y.z3(), x.z3()))
        if new:
            pi = _realval(Fraction(math.pi))
            self.c.axiom(z3.And(r >= -pi, r <= pi))
        self.inverse[r.get_id()] = (r, "arctan2", (y, x))
        return R(r)


_CONCRETE_FUNS = {}


# --------------------------------------------------------------------------------------


class Obligation:
    __slots__ = ("kind", "pc", "cond", "site")

    def __init__(self, kind, pc, cond, site=None):
        self.kind, self.pc, self.cond, self.site = kind, pc, cond, site


def _pydrex_site():
    """(function name, source line text) of the innermost frame that is PyDRex code."""
    import linecache
    import sys as _sys

    f = _sys._getframe(2)
    while f is not None:
        fn = f.f_code.co_filename
        if "/pydrex/" in fn:
            return (f.f_code.co_name, linecache.getline(fn, f.f_lineno).strip(), fn.rsplit("/", 1)[-1])
        f = f.f_back
    return None


class PathCtx:
    def __init__(self, prefix, feas_ms=400, base=()):
        self.prefix = prefix  # list of (choice, closed)
        self.decisions = []  # list of (choice, closed)
        self.pc = []  # z3 constraints: base assumptions, branch conditions, axioms
        self.branch_conds = []
        self.obligations = []
        self.feas_ms = feas_ms
        self.solver = z3.Solver()
        self.solver.set("timeout", feas_ms)
        self.ufs = UFs(self)
        self.n_feas = 0
        self.t_feas = 0.0
        self.notes = {}
        for b in base:
            self.assume(b)

    def assume(self, b):
        if isinstance(b, SymBool):
            b = b.z3()
        self.pc.append(b)
        self.solver.add(b)

    axiom = assume

    def definedness(self, kind, cond):
        """Record 'pc => cond' as an obligation and continue under cond."""
        if z3.is_true(cond):
            return
        self.obligations.append(Obligation(kind, list(self.pc), cond, _pydrex_site()))
        if z3.is_false(cond):
            return
        self.assume(cond)

    def _feasible(self, cond):
        t0 = time.time()
        self.solver.push()
        self.solver.add(cond)
        r = self.solver.check()
        self.solver.pop()
        self.n_feas += 1
        self.t_feas += time.time() - t0
        return r

    def branch(self, cond):
        s = z3.simplify(cond)
        if z3.is_true(s):
            return True
        if z3.is_false(s):
            return False
        i = len(self.decisions)
        if i < len(self.prefix):
            choice, closed = self.prefix[i]
            if i == len(self.prefix) - 1 and closed == "flip":
                # freshly flipped decision: is this side feasible at all?
                if self._feasible(cond if choice else z3.Not(cond)) == z3.unsat:
                    self.decisions.append((choice, True))
                    raise PathAbort("infeasible")
                closed = True
        else:
            r = self._feasible(cond)
            if r == z3.unsat:
                choice, closed = False, True
            else:
                choice, closed = True, False
        self.decisions.append((choice, closed))
        c = cond if choice else z3.Not(cond)
        self.branch_conds.append(c)
        self.assume(c)
        return choice


class PathResult:
    def __init__(self, c: PathCtx, value=None, exc=None):
        self.pc = list(c.pc)
        self.branch_conds = list(c.branch_conds)
        self.decisions = [d for d, _ in c.decisions]
        self.obligations = c.obligations
        self.value = value
        self.exc = exc
        self.notes = c.notes
        self.uf_apps = c.ufs.apps

    def __repr__(self):
        return f"<Path {''.join('T' if d else 'F' for d in self.decisions)} exc={self.exc!r}>"


def explore(fn, base=(), max_paths=5000, feas_ms=400, catch=(Exception,), stats=None, deadline=None):
    """Run fn() on every feasible path. Returns (paths, info).

    fn is called with no arguments inside a fresh PathCtx; it creates its symbolic inputs by
    name (z3 constants are interned by name, so they coincide across runs). Exceptions of the
    code under analysis listed in `catch` end the path and are recorded on it.
    """
    global _CTX
    paths = []
    info = {"runs": 0, "infeasible": 0, "unsupported": [], "feas_queries": 0, "feas_time": 0.0, "truncated": False}
    prefix = []
    while True:
        if info["runs"] >= max_paths or (deadline and time.time() > deadline):
            info["truncated"] = True
            break
        c = PathCtx(prefix, feas_ms=feas_ms, base=base)
        _CTX = c
        info["runs"] += 1
        try:
            try:
                val = fn()
                paths.append(PathResult(c, value=val))
            except PathAbort as e:
                if str(e) == "infeasible":
                    info["infeasible"] += 1
                else:
                    paths.append(PathResult(c, exc=e))
            except Unsupported as e:
                info["unsupported"].append(str(e))
                paths.append(PathResult(c, exc=e))
            except catch as e:
                paths.append(PathResult(c, exc=e))
        finally:
            _CTX = None
            info["feas_queries"] += c.n_feas
            info["feas_time"] += c.t_feas
        # next prefix: flip deepest open True decision
        d = list(c.decisions)
        while d and (d[-1][1] is not False or d[-1][0] is False):
            d.pop()
        if not d:
            break
        d[-1] = (False, "flip")
        prefix = d
    return paths, info


def run_single(fn, base=(), feas_ms=400):
    """Run fn once in a context where no fork is expected (raises if one happens twice)."""
    paths, info = explore(fn, base=base, feas_ms=feas_ms)
    return paths, info


# --------------------------------------------------------------------------------------
# input helpers


def real(name):
    return R(z3.Real(name))


def reals(prefix, n):
    return [real(f"{prefix}{i}") for i in range(n)]


def symint(name):
    return SymInt(z3.Int(name))
