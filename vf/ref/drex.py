"""Reference model of the D-Rex grain kernel, written from the cited papers and the documented tables.

Kaminski & Ribe 2001 (eqs 5-9), Kaminski, Ribe & Browaeys 2004 (eq 11), Fraters & Billen 2021
(eqs 3, 4, 14, 16 and the S1 corrections). Works on any numeric type (floats or symbolic reals):
`ops` supplies abs/pow/exp. Slip-system order and CRSS rows are the documented ones:
(010)[100], (001)[100], (010)[001], (100)[001].
"""

INF = float("inf")

# (slip plane normal index, slip direction index) in crystal axes, conventional order
SLIP_SYSTEMS = ((1, 0), (2, 0), (1, 2), (0, 2))

CRSS = {
    ("olivine", "olivine_A"): (1, 2, 3, INF),
    ("olivine", "olivine_B"): (3, 2, 1, INF),
    ("olivine", "olivine_C"): (3, 2, INF, 1),
    ("olivine", "olivine_D"): (1, 1, 3, INF),
    ("olivine", "olivine_E"): (3, 1, 2, INF),
    ("enstatite", "enstatite_AB"): (INF, INF, INF, 1),
}


def invariants(D, A):
    """I_s = l_s . D . n_s with crystal axis k expressed in the external frame as row k of A."""
    out = []
    for nrm, drc in SLIP_SYSTEMS:
        tot = 0
        for i in range(3):
            for j in range(3):
                tot = tot + D[i][j] * A[drc][i] * A[nrm][j]
        out.append(tot)
    return out


def schmid(A, gam):
    """G_ij = 2 sum_s gamma_s l^s_i n^s_j."""
    G = [[0, 0, 0], [0, 0, 0], [0, 0, 0]]
    for s, (nrm, drc) in enumerate(SLIP_SYSTEMS):
        for i in range(3):
            for j in range(3):
                G[i][j] = G[i][j] + 2 * gam[s] * A[drc][i] * A[nrm][j]
    return G


def sym_inner(X, Y):
    """<sym X, sym Y> (Frobenius)."""
    tot = 0
    for i in range(3):
        for j in range(3):
            tot = tot + (X[i][j] + X[j][i]) * (Y[i][j] + Y[j][i]) / 4
    return tot


def spin_rate(A, L, G, g0):
    """dA = -A . W' with W' the antisymmetric part of L - g0 G (lattice rotates against plastic spin)."""
    M = [[L[i][j] - g0 * G[i][j] for j in range(3)] for i in range(3)]
    W = [[(M[i][j] - M[j][i]) / 2 for j in range(3)] for i in range(3)]
    out = [[0, 0, 0], [0, 0, 0], [0, 0, 0]]
    for i in range(3):
        for j in range(3):
            tot = 0
            for k in range(3):
                tot = tot + A[i][k] * W[k][j]
            out[i][j] = -tot
    return out


def float_kernel(phase, fabric, A, D, L, p, n, lam):
    """Float64 reference for replay / translator validation (pure Python, math only)."""
    import math

    tau = CRSS[(phase, fabric)]
    I = invariants(D, A)
    if all(x == 0 for x in I):
        return [[0.0] * 3 for _ in range(3)], 0.0
    gam = [0.0] * 4
    if phase == "olivine":
        act = [abs(I[s] / tau[s]) for s in range(4)]
        idx = sorted(range(4), key=lambda s: act[s])
        imax = idx[3]
        if I[imax] == 0:
            return [[0.0] * 3 for _ in range(3)], 0.0
        for s in (idx[1], idx[2]):
            r = (I[s] / tau[s]) / (I[imax] / tau[imax])
            gam[s] = r * abs(r) ** (n - 1)
        gam[imax] = 1.0
    else:
        if abs(I[3]) > 1e-15:
            gam[3] = 1.0
    G = schmid(A, gam)
    den = 2 * sym_inner(G, G)
    g0 = 0.0 if -1e-15 < den < 1e-15 else 2 * sym_inner(G, L) / den
    dA = spin_rate(A, L, G, g0)
    E = 0.0
    for s in range(4):
        if tau[s] == INF:
            continue
        rho = (1 / tau[s]) ** (n - p) * abs(gam[s] * g0) ** (p / n)
        E += rho * math.exp(-lam * rho * rho)
    return dA, E
