"""Solver discipline: every claim is a query `assumptions /\\ not claim`; unsat = holds.

`unknown` / timeout is inconclusive and is counted, never hidden. All queries of a check go
through one `Session`, which keeps the statistics written to the evidence file.
"""

from __future__ import annotations

import os
import time
from fractions import Fraction

import z3

from . import sym
from .sym import R, SymBool

SEED = int(os.environ.get("VERIF_SEED", "0") or 0)

# A single query may not take the machine down: on a changed tree nlsat has been seen to allocate tens of GB within
# seconds (the worker was then killed by the kernel and the pool waited for it for ever). z3 gives up on the query
# instead ("unknown" -- inconclusive, then the replay decides).
z3.set_param("memory_max_size", int(os.environ.get("VERIF_Z3_MEMORY_MB", "3000")))


def _z(b):
    if isinstance(b, SymBool):
        return b.z3()
    if isinstance(b, bool):
        return z3.BoolVal(b)
    return b


import sys as _sys

_sys.setrecursionlimit(max(_sys.getrecursionlimit(), 50000))


_CONSTS_MEMO = {}


def _consts(t):
    """Names of the uninterpreted constants occurring in t (memoised by AST id; terms kept alive)."""
    k = t.get_id()
    r = _CONSTS_MEMO.get(k)
    if r is not None:
        return r[1]
    if z3.is_const(t):
        out = frozenset([t.decl().name()]) if t.decl().kind() == z3.Z3_OP_UNINTERPRETED else frozenset()
    else:
        out = frozenset()
        for c in t.children():
            out = out | _consts(c)
    if len(_CONSTS_MEMO) > 2000000:
        _CONSTS_MEMO.clear()
    _CONSTS_MEMO[k] = (t, out)
    return out


class LinearAbstraction:
    """Over-approximation: every non-linear subterm (product of two non-numerals, division by a
    non-numeral, power, uninterpreted application) is replaced by a fresh real, the same term always
    by the same variable. If the abstracted query is unsat the original is unsat (sound for proving);
    a sat answer of the abstraction means nothing and the exact query is then asked."""

    def __init__(self):
        self.memo = {}
        self.fresh = {}
        self.side = []  # sound facts about the fresh variables (squares are non-negative)

    def _var(self, t):
        k = t.get_id()
        v = self.fresh.get(k)
        if v is None:
            v = (t, z3.Real(f"nl!{len(self.fresh)}"))
            self.fresh[k] = v
        return v[1]

    def conv(self, t):
        k = t.get_id()
        r = self.memo.get(k)
        if r is not None:
            return r[1]
        r = self._conv(t)
        self.memo[k] = (t, r)
        return r

    def _conv(self, t):
        if not z3.is_app(t) or t.num_args() == 0:
            return t
        kind = t.decl().kind()
        ch = t.children()
        if kind == z3.Z3_OP_MUL:
            nonnum = [c for c in ch if not (z3.is_rational_value(c) or z3.is_int_value(c))]
            if len(nonnum) >= 2:
                v = self._var(t)
                if len(nonnum) == 2 and len(ch) == 2 and nonnum[0].eq(nonnum[1]):
                    self.side.append(v >= 0)
                return v
            return z3.Product(*[self.conv(c) for c in ch]) if len(ch) > 1 else self.conv(ch[0])
        if kind == z3.Z3_OP_DIV:
            if z3.is_rational_value(ch[1]) or z3.is_int_value(ch[1]):
                return self.conv(ch[0]) / ch[1]
            return self._var(t)
        if kind in (z3.Z3_OP_POWER, z3.Z3_OP_UNINTERPRETED):
            return self._var(t)
        new = [self.conv(c) for c in ch]
        if all(a.eq(b) for a, b in zip(new, ch)):
            return t
        return t.decl()(*new)


def _cvc5_check(text, tlimit_ms):
    import cvc5

    sl = cvc5.Solver()
    sl.setOption("tlimit-per", str(int(tlimit_ms)))
    ip = cvc5.InputParser(sl)
    ip.setStringInput(cvc5.InputLanguage.SMT_LIB_2_6, text, "q")
    sm = ip.getSymbolManager()
    res = "unknown"
    while True:
        c = ip.nextCommand()
        if c.isNull():
            break
        out = str(c.invoke(sl, sm)).strip()
        if out in ("sat", "unsat", "unknown"):
            res = out
    return res


class QueryResult:
    def __init__(self, name, verdict, model, secs, tags=None, detail=None):
        self.name, self.verdict, self.model, self.secs = name, verdict, model, secs
        self.tags = tags or {}
        self.detail = detail

    @property
    def holds(self):
        return self.verdict == "unsat"

    def __repr__(self):
        return f"<{self.name}: {self.verdict} {self.secs:.2f}s>"


CURRENT = None  # the session of the task running in this worker process (set by framework._run_task)


class Session:
    def __init__(self, prop, timeout_ms=20000, cross_fraction=0.0):
        self.prop = prop
        self.timeout_ms = timeout_ms
        self.results = []
        self.t0 = time.time()
        self.solver_time = 0.0
        self.cross = {"run": 0, "agree": 0, "disagree": 0, "cvc5_unknown": 0, "cvc5_error": 0, "secs": 0.0, "disagreements": []}
        self.cross_fraction = cross_fraction  # None/0.0 -> chosen by tier (see _cross_check)
        self._qn = 0
        self.functions = {}
        self.assumptions = []
        self.outside = []
        self.bounds = {}
        self.notes = []
        self.paths = {}
        self.inconclusive = []
        self.reach = []

    # ---- bookkeeping
    def encode(self, *funcs):
        import hashlib
        import inspect

        for f in funcs:
            try:
                src = inspect.getsource(f)
                h = hashlib.sha256(src.encode()).hexdigest()[:12]
                name = f.__name__ if inspect.ismodule(f) else f"{f.__module__}.{f.__qualname__}"
            except (TypeError, OSError):
                name, h = repr(f), "?"
            self.functions[name] = h

    def assume_env(self, text):
        if text not in self.assumptions:
            self.assumptions.append(text)

    def outside_claim(self, text):
        if text not in self.outside:
            self.outside.append(text)

    # ---- queries
    def _solve(self, constraints, timeout_ms, tactic=None):
        s = z3.Solver() if tactic is None else z3.Tactic(tactic).solver()
        s.set("timeout", int(timeout_ms))
        try:
            s.set("random_seed", SEED)
        except z3.Z3Exception:
            pass
        for c in constraints:
            s.add(c)
        t = time.time()
        try:
            r = s.check()
        except z3.Z3Exception:  # out of memory / resource limit inside z3: the query is inconclusive
            r = z3.unknown
        dt = time.time() - t
        self.solver_time += dt
        model = None
        if r == z3.sat:
            model = s.model()
        if r != z3.unknown:
            self._cross_check(s, str(r))
        return str(r), model, dt

    # ---- second solver: a sample of the decided queries is re-asked of cvc5 (SMT-LIB text of the very same
    # assertions). Agreement / cvc5-unknown / parse trouble are counted; a definite disagreement makes the
    # check inconclusive (never success, never an alarm).
    def _cross_check(self, solver, verdict):
        import zlib

        self._qn += 1
        tier = getattr(self, "tier", "quick")
        env = os.environ.get("VERIF_CROSS")
        frac = float(env) if env else (self.cross_fraction or (0.5 if tier == "thorough" else 0.15))
        budget = float(os.environ.get("VERIF_CROSS_BUDGET", "0") or 0) or (90.0 if tier == "thorough" else 15.0)
        if frac <= 0 or self.cross["secs"] > budget:
            return
        if zlib.crc32(f"{SEED}:{self.prop}:{self._qn}".encode()) / 2**32 >= frac:
            return
        t = time.time()
        try:
            text = "(set-logic ALL)\n" + solver.to_smt2()
            if len(text) > 400000:
                return
            got = _cvc5_check(text, 2000)
        except Exception as e:  # noqa: BLE001 - the cross-check must never decide anything by failing
            got = "error:" + type(e).__name__
        self.cross["secs"] += time.time() - t
        self.cross["run"] += 1
        if got == verdict:
            self.cross["agree"] += 1
        elif got in ("sat", "unsat"):
            self.cross["disagree"] += 1
            self.cross["disagreements"].append({"query": self._qn, "z3": verdict, "cvc5": got})
            self.results.append(QueryResult(f"cvc5 cross-check disagrees with z3 on query #{self._qn} (z3 {verdict}, cvc5 {got})", "unknown", None, 0.0, {"cross_check": True}))
        elif got.startswith("error"):
            self.cross["cvc5_error"] += 1
        else:
            self.cross["cvc5_unknown"] += 1

    def prove(self, name, assumptions, claim, timeout_ms=None, tags=None, expect=None):
        """Query assumptions /\\ not claim. Returns QueryResult (holds iff unsat)."""
        cs = [_z(a) for a in assumptions] + [z3.Not(_z(claim))]
        if z3.is_true(_z(claim)) or z3.is_false(_z(claim)):
            tags = dict(tags or {}, concrete_claim=True)  # decided by concrete evaluation of the run (bookkeeping facts, finite tables)
        # stage A0: only the assumptions over the claim's own variables (sound: fewer assumptions)
        dtA = 0.0
        if not z3.is_false(cs[-1]) and not (tags or {}).get("exact_only") and len(cs) > 3:
            try:
                cv = _consts(cs[-1])
                if 0 < len(cv) <= 6:
                    sub = [c for c in cs[:-1] if _consts(c) <= cv]
                    if len(sub) < len(cs) - 1:
                        v0, _, dt0 = self._solve(sub + [cs[-1]], 3000)
                        dtA += dt0
                        if v0 == "unsat":
                            qr = QueryResult(name, "unsat", None, dtA, dict(tags or {}, stage="cone-of-influence"))
                            self.results.append(qr)
                            return qr
            except z3.Z3Exception:
                pass
        # stage A: linear abstraction of the same query (sound over-approximation), short budget
        if not z3.is_false(cs[-1]) and not (tags or {}).get("exact_only"):
            try:
                la = LinearAbstraction()
                acs = [la.conv(c) for c in cs]
                acs += la.side
                vA, _, dtA1 = self._solve(acs, min(5000, timeout_ms or self.timeout_ms))
                dtA += dtA1
                if vA == "unsat":
                    qr = QueryResult(name, "unsat", None, dtA, dict(tags or {}, stage="linear-abstraction"))
                    self.results.append(qr)
                    return qr
            except (z3.Z3Exception, RecursionError):
                pass
        verdict, model, dt = self._solve(cs, timeout_ms or self.timeout_ms)
        dt += dtA
        if verdict == "unknown":
            # second opinion with the nlsat-based tactic / simplification
            try:
                v2, m2, dt2 = self._solve(cs, timeout_ms or self.timeout_ms, tactic="qfnra-nlsat")
                dt += dt2
                if v2 != "unknown":
                    verdict, model = v2, m2
            except z3.Z3Exception:
                pass
        qr = QueryResult(name, verdict, model, dt, tags)
        self.results.append(qr)
        if verdict == "unknown":
            self.inconclusive.append(name)
        return qr

    def path_infeasible(self, name, pc, timeout_ms=5000):
        """True if the path condition (plus environment facts) is already contradictory under the linear
        abstraction: every claim on such a path holds vacuously; recorded as one discharged obligation."""
        try:
            la = LinearAbstraction()
            acs = [la.conv(_z(c)) for c in pc] + la.side
            v, _, dt = self._solve(acs, timeout_ms)
        except (z3.Z3Exception, RecursionError):
            return False
        if v == "unsat":
            self.results.append(QueryResult(name, "unsat", None, dt, {"stage": "linear-abstraction", "vacuous_path": True}))
            return True
        return False

    def prove_eq(self, name, assumptions, lhs, rhs, **kw):
        """Real equality lhs == rhs (R values)."""
        l, r = R(lhs), R(rhs)
        if l.concrete and r.concrete:
            claim = z3.BoolVal(l.v == r.v)
        else:
            claim = l.z3() == r.z3()
        return self.prove(name, assumptions, claim, **kw)

    def nf_claim(self, rules, A, B):
        """Claim A == B (cell-wise) with lhs - rhs expanded and reduced modulo `rules` (see poly.py).
        Returns (z3 claim, info). Denominators are non-zero by the definedness assumptions in the pc."""
        import numpy as _np

        from . import poly

        norm = getattr(rules, "_norm", None)
        if norm is None:
            norm = rules.normaliser()
            rules._norm = norm
        A = _np.asarray(A, dtype=object)
        B = _np.asarray(B, dtype=object)
        if A.shape != B.shape:
            raise sym.HarnessError(f"shape mismatch {A.shape} vs {B.shape}")
        cls = []
        nz = 0
        validated = 0
        for a, b in zip(A.flat, B.flat):
            a, b = R(a), R(b)
            if a.concrete and b.concrete:
                if a.v != b.v:
                    cls.append(z3.BoolVal(False))
                continue
            num = poly.diff_numerator(norm, a, b)
            if validated < 2:
                validated += 1
                self.nf_validated = getattr(self, "nf_validated", 0) + poly.validate(norm, rules, a.z3() - b.z3(), num, seed=SEED + nz)
            if num:
                nz += 1
                cls.append(norm.to_z3(num) == 0)
        self.nf_cells = getattr(self, "nf_cells", 0) + A.size
        if not cls:
            return z3.BoolVal(True)
        return z3.And(*cls) if len(cls) > 1 else cls[0]

    def resolve_ifs(self, pc, rules, arrays):
        """If-terms whose condition is decided by the path condition are replaced by the taken branch
        (alias justified by a proved implication) so that the polynomial normal form sees through clips."""
        import numpy as _np

        done = getattr(rules, "_ifs_done", None)
        if done is None:
            done = rules._ifs_done = {}
        found = {}

        def walk(t, seen):
            k = t.get_id()
            if k in seen:
                return
            seen[k] = t
            if z3.is_app(t):
                if t.decl().kind() == z3.Z3_OP_ITE and z3.is_real(t):
                    found[k] = t
                for c in t.children():
                    walk(c, seen)

        seen = {}
        for arr in arrays:
            for x in _np.asarray(arr, dtype=object).flat:
                x = R(x)
                if not x.concrete:
                    walk(x.v, seen)
        new = 0
        for k, t in found.items():
            if k in done:
                continue
            c, a, b = t.children()
            # only clip-like conditions (comparison against a numeral) are worth a query
            if not (z3.is_app(c) and c.decl().kind() in (z3.Z3_OP_LE, z3.Z3_OP_GE, z3.Z3_OP_LT, z3.Z3_OP_GT)
                    and any(z3.is_rational_value(x) or z3.is_int_value(x) for x in c.children())):
                done[k] = (t, None)
                continue
            q = self.prove(f"[if-resolution] {str(c)[:60]}", pc, c, timeout_ms=10000, tags={"optional": True, "aux": True})
            self.results.pop()
            if q.holds:
                done[k] = (t, a)
            else:
                q = self.prove(f"[if-resolution] not {str(c)[:60]}", pc, z3.Not(c), timeout_ms=10000, tags={"optional": True, "aux": True})
                self.results.pop()
                done[k] = (t, b) if q.holds else (t, None)
            if done[k][1] is not None:
                rules.conditional = True  # aliases valid under the path condition only: no unconditional sampling
                rules.aliases.append((t, done[k][1]))
                rules.assumptions.append(t == done[k][1])
                new += 1
        if new:
            rules._norm = None
        return new

    def prove_nf(self, name, pc, rules, A, B, resolve_ifs=False, **kw):
        if resolve_ifs:
            self.resolve_ifs(pc, rules, [A, B])
        cl = self.nf_claim(rules, A, B)
        q = self.prove(name, list(pc) + list(rules.assumptions), cl, **kw)
        if q.verdict == "unknown" and rules.samplers:
            # the reduced polynomial is not identically zero: look for a counterexample with the rotation
            # parameters concretised at random rational points of the variety (the rest is low degree)
            import random as _random

            rng = _random.Random(SEED + len(self.results))
            for _ in range(4):
                fix = []
                for smp in rules.samplers:
                    for nme, val in smp(rng).items():
                        fix.append(z3.Real(nme) == z3.Q(val.numerator, val.denominator))
                v, model, dt = self._solve([_z(a) for a in list(pc) + list(rules.assumptions)] + fix + [z3.Not(_z(cl))], 10000)
                if v == "sat":
                    q.verdict, q.model = "sat", model
                    q.tags = dict(q.tags or {}, stage="concretised-rotation")
                    if name in self.inconclusive:
                        self.inconclusive.remove(name)
                    break
        return q

    def satisfiable(self, name, constraints, timeout_ms=None, tags=None):
        """Reachability / vacuity witness: the constraints must be satisfiable."""
        verdict, model, dt = self._solve([_z(c) for c in constraints], timeout_ms or self.timeout_ms)
        qr = QueryResult(name, verdict, model, dt, tags)
        self.reach.append(qr)
        return qr

    def counts(self):
        c = {"unsat": 0, "sat": 0, "unknown": 0}
        for q in self.results:
            c[q.verdict] = c.get(q.verdict, 0) + 1
        return c


def model_value(model, r, default=Fraction(0)):
    """Evaluate an R / z3 term in a model as a Fraction (algebraic values are approximated)."""
    if isinstance(r, R):
        if r.concrete:
            return r.v
        e = r.v
    else:
        e = r
    v = model.eval(e, model_completion=True)
    if z3.is_rational_value(v):
        return Fraction(v.numerator_as_long(), v.denominator_as_long())
    if z3.is_algebraic_value(v):
        a = v.approx(30)
        return Fraction(a.numerator_as_long(), a.denominator_as_long())
    if z3.is_int_value(v):
        return Fraction(v.as_long())
    try:
        return Fraction(str(v))
    except Exception:
        return default


def model_floats(model, rs):
    return [float(model_value(model, r)) for r in rs]
