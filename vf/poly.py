"""Polynomial normal forms for z3 real terms (encoding simplification before the SMT query).

z3's nlsat cannot decide degree-8 identities over two unit quaternions in reasonable time, but
such claims become trivial once `lhs - rhs` is expanded and reduced modulo the *assumed*
equalities (w^2 -> 1 - x^2 - y^2 - z^2 for each unit quaternion, sg^2 -> 1 for reflection
signs, s^2 -> 2 for sqrt(2) ...). The reduced numerator is what is handed to the solver, so the
query is equivalent to the original one under the path condition; when the reduction is the
zero polynomial the solver's answer is immediate. Non-polynomial subterms (If, UF results) are
opaque atoms. The normaliser is validated on every use by exact evaluation of the original
term and of the normal form at random rational points (a mismatch is a harness error).
"""

from __future__ import annotations

import random
from fractions import Fraction

import z3

from .sym import HarnessError, R

# polynomial: dict {monomial: Fraction}; monomial: tuple of (atom_id, exp) sorted by atom_id


class Atoms:
    def __init__(self):
        self.ids = {}
        self.terms = []

    def get(self, t):
        k = t.get_id()
        i = self.ids.get(k)
        if i is None:
            i = len(self.terms)
            self.ids[k] = i
            self.terms.append(t)
        return i


def p_const(c):
    c = Fraction(c)
    return {(): c} if c != 0 else {}


def p_var(i):
    return {((i, 1),): Fraction(1)}


def p_add(a, b, sb=1):
    out = dict(a)
    for m, c in b.items():
        v = out.get(m, 0) + sb * c
        if v == 0:
            out.pop(m, None)
        else:
            out[m] = v
    return out


def _mmul(m1, m2):
    if not m1:
        return m2
    if not m2:
        return m1
    d = dict(m1)
    for a, e in m2:
        d[a] = d.get(a, 0) + e
    return tuple(sorted(d.items()))


def p_mul(a, b):
    if not a or not b:
        return {}
    if len(a) > len(b):
        a, b = b, a
    out = {}
    for m1, c1 in a.items():
        for m2, c2 in b.items():
            m = _mmul(m1, m2)
            v = out.get(m, 0) + c1 * c2
            if v == 0:
                out.pop(m, None)
            else:
                out[m] = v
    return out


def p_scale(a, c):
    if c == 0:
        return {}
    return {m: v * c for m, v in a.items()}


def p_pow(a, n):
    out = p_const(1)
    for _ in range(n):
        out = p_mul(out, a)
    return out


class Normaliser:
    """rules: list of (z3 const, replacement R/z3 term/number) meaning const^2 -> replacement."""

    def __init__(self, rules=()):
        self.atoms = Atoms()
        self.cache = {}
        self.rules = {}
        self.pending_rules = list(rules)
        self.rule_polys = {}
        self.alias_polys = {}
        self.pending_alias = []

    def add_alias(self, var, repl):
        """var -> repl (justified by an assumed equality var == repl that is part of the query)."""
        self.pending_alias.append((var, repl))

    def _install_rules(self):
        pending, self.pending_rules = self.pending_rules, []
        for var, repl in pending:
            v = var.z3() if isinstance(var, R) else var
            i = self.atoms.get(v)
            r = repl.z3() if isinstance(repl, R) else (repl if isinstance(repl, z3.ExprRef) else z3.RealVal(str(Fraction(repl))))
            n, d = self.ratfun(r, _norules=True)
            if d != p_const(1):
                raise HarnessError("rewrite rule with a denominator")
            if any(a == i for m in n for a, _ in m):
                raise HarnessError("rewrite rule whose replacement mentions the rewritten variable")
            self.rule_polys[i] = n
        pend, self.pending_alias = self.pending_alias, []
        for var, repl in pend:
            v = var.z3() if isinstance(var, R) else var
            i = self.atoms.get(v)
            r = repl.z3() if isinstance(repl, R) else repl
            n, d = self.ratfun(r, _norules=True)
            if d != p_const(1):
                raise HarnessError("alias with a denominator")
            self.alias_polys[i] = n
        self.cache = {}

    # rational function = (num, den) polynomials
    def ratfun(self, t, _norules=False):
        if (self.pending_rules or self.pending_alias) and not _norules:
            self._install_rules()
        k = t.get_id()
        r = self.cache.get(k)
        if r is not None:
            return r[1]
        r = self._conv(t)
        self.cache[k] = (t, r)  # keep the term alive: z3 reuses ids of collected ASTs
        return r

    def _conv(self, t):
        one = p_const(1)
        if z3.is_rational_value(t):
            return p_const(Fraction(t.numerator_as_long(), t.denominator_as_long())), one
        if z3.is_int_value(t):
            return p_const(t.as_long()), one
        if z3.is_app(t):
            k = t.decl().kind()
            ch = t.children()
            if k == z3.Z3_OP_ADD:
                n, d = self.ratfun(ch[0])
                for c in ch[1:]:
                    n2, d2 = self.ratfun(c)
                    n, d = self._add((n, d), (n2, d2), 1)
                return n, d
            if k == z3.Z3_OP_SUB:
                n, d = self.ratfun(ch[0])
                for c in ch[1:]:
                    n, d = self._add((n, d), self.ratfun(c), -1)
                return n, d
            if k == z3.Z3_OP_UMINUS:
                n, d = self.ratfun(ch[0])
                return p_scale(n, -1), d
            if k == z3.Z3_OP_MUL:
                n, d = self.ratfun(ch[0])
                for c in ch[1:]:
                    n2, d2 = self.ratfun(c)
                    n, d = self.reduce(p_mul(n, n2)), (d if d2 == one else (d2 if d == one else self.reduce(p_mul(d, d2))))
                return n, d
            if k == z3.Z3_OP_DIV:
                n1, d1 = self.ratfun(ch[0])
                n2, d2 = self.ratfun(ch[1])
                return self.reduce(p_mul(n1, d2)), self.reduce(p_mul(d1, n2))
            if k == z3.Z3_OP_POWER and z3.is_int_value(ch[1]) or (k == z3.Z3_OP_POWER and z3.is_rational_value(ch[1]) and ch[1].denominator_as_long() == 1):
                e = ch[1].as_long() if z3.is_int_value(ch[1]) else ch[1].numerator_as_long()
                if e >= 0:
                    n, d = self.ratfun(ch[0])
                    return self.reduce(p_pow(n, e)), self.reduce(p_pow(d, e))
            if k == z3.Z3_OP_TO_REAL:
                pass
        # opaque atom (constant symbol, If, UF result, ...)
        return p_var(self.atoms.get(t)), one

    def _add(self, a, b, sgn):
        (n1, d1), (n2, d2) = a, b
        if d1 == d2:
            return p_add(n1, n2, sgn), d1
        n = p_add(self.reduce(p_mul(n1, d2)), self.reduce(p_mul(n2, d1)), sgn)
        return n, self.reduce(p_mul(d1, d2))

    def reduce(self, p):
        """Rewrite every v^k (k >= 2) with a rule v^2 -> repl until none applies."""
        guard = 0
        while self.alias_polys and any(a in self.alias_polys for m in p for a, _ in m):
            guard += 1
            if guard > 50:
                raise HarnessError("alias substitution does not terminate")
            out = {}
            for m, c in p.items():
                if not any(a in self.alias_polys for a, _ in m):
                    out[m] = out.get(m, 0) + c
                    continue
                term = {tuple((a, e) for a, e in m if a not in self.alias_polys): c}
                for a, e in m:
                    if a in self.alias_polys:
                        term = p_mul(term, p_pow(self.alias_polys[a], e))
                for m2, c2 in term.items():
                    out[m2] = out.get(m2, 0) + c2
            p = {m: c for m, c in out.items() if c != 0}
        if not self.rule_polys:
            return p
        changed = True
        while changed:
            changed = False
            out = {}
            for m, c in p.items():
                hit = None
                for a, e in m:
                    if e >= 2 and a in self.rule_polys:
                        hit = (a, e)
                        break
                if hit is None:
                    v = out.get(m, 0) + c
                    if v == 0:
                        out.pop(m, None)
                    else:
                        out[m] = v
                    continue
                changed = True
                a, e = hit
                rest = tuple((x, y) if x != a else (x, y - 2) for x, y in m)
                rest = tuple((x, y) for x, y in rest if y > 0)
                for m2, c2 in self.rule_polys[a].items():
                    mm = _mmul(rest, m2)
                    v = out.get(mm, 0) + c * c2
                    if v == 0:
                        out.pop(mm, None)
                    else:
                        out[mm] = v
            p = out
        return p

    # back to z3
    def to_z3(self, p):
        if not p:
            return z3.RealVal(0)
        terms = []
        for m, c in sorted(p.items(), key=lambda kv: kv[0]):
            fs = []
            for a, e in m:
                fs += [self.atoms.terms[a]] * e
            t = z3.RealVal(str(c)) if c.denominator == 1 else z3.Q(c.numerator, c.denominator)
            for f in fs:
                t = t * f
            terms.append(t)
        return z3.Sum(terms) if len(terms) > 1 else terms[0]

    def eval_poly(self, p, point):
        tot = Fraction(0)
        for m, c in p.items():
            v = c
            for a, e in m:
                v *= point[a] ** e
            tot += v
        return tot


def diff_numerator(norm: Normaliser, lhs, rhs):
    """Reduced numerator polynomial of lhs - rhs and the reduced denominators involved."""
    l = R(lhs)
    r = R(rhs)
    n1, d1 = norm.ratfun(l.z3())
    n2, d2 = norm.ratfun(r.z3())
    if d1 == d2:
        num = p_add(n1, n2, -1)
    else:
        num = p_add(norm.reduce(p_mul(n1, d2)), norm.reduce(p_mul(n2, d1)), -1)
    return norm.reduce(num)


# ---------------------------------------------------------------------------------------
# rules with samplers (rational points on the variety, used to validate the normaliser)


class Rules:
    """Collection of v^2 -> repl rewrite rules justified by assumptions that are in the query."""

    def __init__(self):
        self.rules = []
        self.assumptions = []  # z3 facts that justify the rules (must be part of the pc)
        self.samplers = []  # callables rng -> {z3 const name: Fraction}
        self.unsampled = set()
        self.aliases = []

    def unit_quat(self, q):
        w, x, y, z = q
        self.rules.append((w, 1 - x * x - y * y - z * z))
        self.assumptions.append((w * w + x * x + y * y + z * z == 1).z3())
        names = [str(c.v) for c in q]

        def samp(rng):
            while True:
                a, b, c, d = (Fraction(rng.randint(-7, 7), rng.randint(1, 5)) for _ in range(4))
                n = a * a + b * b + c * c + d * d
                if n != 0:
                    break
            vals = [(a * a - b * b - c * c - d * d) / n, 2 * a * b / n, 2 * a * c / n, 2 * a * d / n]
            return dict(zip(names, vals))

        self.samplers.append(samp)
        return self

    def sign(self, s):
        self.rules.append((s, 1))
        self.assumptions.append(z3.Or(s.z3() == 1, s.z3() == -1))
        name = str(s.v)
        self.samplers.append(lambda rng: {name: Fraction(rng.choice([-1, 1]))})
        return self

    def square(self, s, value, assumption=None):
        """s^2 -> value (e.g. s = sqrt(2)); no rational sample point exists in general."""
        self.rules.append((s, value))
        if assumption is not None:
            self.assumptions.append(assumption)
        self.unsampled.add(str(s.v if isinstance(s, R) else s))
        return self

    def circle(self, c, s):
        """c^2 + s^2 = 1: s^2 -> 1 - c^2."""
        self.rules.append((s, 1 - c * c))
        self.assumptions.append((c * c + s * s == 1).z3())
        nc, ns = str(c.v), str(s.v)

        def samp(rng):
            t = Fraction(rng.randint(-9, 9), rng.randint(1, 7))
            return {nc: (1 - t * t) / (1 + t * t), ns: 2 * t / (1 + t * t)}

        self.samplers.append(samp)
        return self

    def alias(self, var, repl):
        """var -> repl everywhere; the equality var == repl becomes an assumption of the query."""
        self.aliases.append((var, repl))
        self.assumptions.append((R(var) == R(repl)).z3())
        self.unsampled.add(str(R(var).v))
        return self

    def normaliser(self):
        n = Normaliser(self.rules)
        for v, r in self.aliases:
            n.add_alias(v, r)
        return n


def _leaves(t, acc, seen):
    k = t.get_id()
    if k in seen:
        return
    seen.add(k)
    if z3.is_const(t) and t.decl().kind() == z3.Z3_OP_UNINTERPRETED:
        acc[str(t)] = t
        return
    for c in t.children():
        _leaves(c, acc, seen)


def validate(norm: Normaliser, rules: Rules, orig_term, nf_poly, seed=0, points=2):
    """Exact evaluation of `orig_term` and of its normal form at random rational points of the
    variety defined by the rules. Returns number of points checked (0 if not sampleable)."""
    leaves = {}
    _leaves(orig_term, leaves, set())
    for a in norm.atoms.terms:
        _leaves(a, leaves, set())
    if any(n in rules.unsampled for n in leaves) or getattr(rules, "conditional", False):
        return 0
    rng = random.Random(seed)
    done = 0
    for _ in range(points):
        vals = {}
        for s in rules.samplers:
            vals.update(s(rng))
        for n in leaves:
            if n not in vals:
                vals[n] = Fraction(rng.randint(-9, 9), rng.randint(1, 4))
        subs = [(leaves[n], z3.RealVal(str(v))) for n, v in vals.items() if n in leaves and z3.is_real(leaves[n])]
        def ev(t):
            r = z3.simplify(z3.substitute(t, *subs))
            if z3.is_rational_value(r):
                return Fraction(r.numerator_as_long(), r.denominator_as_long())
            return None
        o = ev(orig_term)
        if o is None:
            continue
        point = {}
        ok = True
        for i, a in enumerate(norm.atoms.terms):
            v = ev(a)
            if v is None:
                ok = False
                break
            point[i] = v
        if not ok:
            continue
        n = norm.eval_poly(nf_poly, point)
        if (o == 0) != (n == 0):
            raise HarnessError(f"polynomial normaliser disagrees with z3 evaluation: {o} vs {n}")
        done += 1
    return done
