"""python -m vf.run <ID> [--tier quick|thorough] [--replay FILE]"""

import argparse
import importlib
import json
import os
import sys
import time

os.environ.setdefault("NUMBA_DISABLE_JIT", "1")  # symbolic runs execute the undecorated source


def main():
    ap = argparse.ArgumentParser()
    ap.add_argument("prop")
    ap.add_argument("--tier", default=os.environ.get("VERIF_TIER", "quick"), choices=["quick", "thorough"])
    ap.add_argument("--replay")
    ap.add_argument("--only", help="run only tasks whose function name contains this")
    ap.add_argument("--workers", type=int)
    a = ap.parse_args()
    from . import framework

    if a.replay:
        with open(a.replay) as f:
            c = json.load(f)
        res = framework.replay_cases([c])
        print(json.dumps(res, indent=1))
        sys.exit(1 if res and res[0].get("reproduced") else 0)
    t0 = time.time()
    try:
        mod = importlib.import_module(f"vf.props.{a.prop}")
        tasks = mod.tasks(a.tier)
        if a.only:
            tasks = [t for t in tasks if a.only in t[0]]
            # a partial run must never overwrite the evidence of the full check
            os.environ.setdefault("VERIF_EVIDENCE_DIR", os.path.join(framework.VERIF, ".partial_evidence"))
        timeout_ms = getattr(mod, "TIMEOUT_MS", {}).get(a.tier, 60000 if a.tier == "quick" else 300000)
        # the tasks are forked from a process that has already used the public API with other arguments
        # (see vf/warmup.py): state leaking between calls shows up in the tasks' claims
        from . import warmup

        import contextlib
        import io as _io

        with contextlib.redirect_stderr(_io.StringIO()), contextlib.redirect_stdout(_io.StringIO()):
            wnotes = warmup.api_warmup()
        if wnotes:
            print("warm-up calls that raised (recorded, not judged): " + "; ".join(wnotes), file=sys.stderr)
        reports = framework.run_tasks(f"vf.props.{a.prop}", tasks, a.tier, timeout_ms, workers=a.workers)
        extra = mod.coverage_extra(reports) if hasattr(mod, "coverage_extra") else None
        code = framework.finish(a.prop, a.tier, reports, t0, extra_cov=extra, mod=mod)
    except SystemExit:
        raise
    except BaseException as e:  # noqa: BLE001
        import traceback

        traceback.print_exc()
        print(f"HARNESS-ERROR {type(e).__name__}: {e}", file=sys.stderr)
        code = 3
    sys.exit(code)


if __name__ == "__main__":
    main()
