"""Object-dtype ndarray subclass whose cells are symbolic values, plus the `np` proxy that is
bound in place of the module-level `np` of the PyDRex modules under analysis.

Slicing, views, reshape, transpose, fancy indexing, hstack, matmul and broadcasting are numpy's
own semantics (views alias, copies do not). Only operations that would call bool() per element
are re-implemented with If-terms (no fork) or with an explicit fork where a concrete index is
needed (argsort, searchsorted).
"""

from __future__ import annotations

import math
from fractions import Fraction

import numpy as _np
import z3

from . import sym
from .sym import R, SymBool, SymInt, Unsupported, ite, rmax, rmin, rsign, sym_and, sym_or

_real_np = _np


def _wrap_cell(x):
    if isinstance(x, (R, SymBool, SymInt)) or x is None:
        return x
    if isinstance(x, (bool, _np.bool_)):
        return SymBool(bool(x))
    if sym._is_num(x):
        return R(x)
    return x


_vwrap = _np.frompyfunc(_wrap_cell, 1, 1)


def sarr(x, copy=True):
    """Make an SArr (cells wrapped as R / SymBool) from anything array-like."""
    if isinstance(x, SArr):
        return x.copy() if copy else x
    if isinstance(x, MaskedSel):
        raise Unsupported("array construction from a symbolic-mask selection")
    a = _np.array(x, dtype=object) if not isinstance(x, _np.ndarray) else x.astype(object)
    if a.ndim == 0:
        out = _np.empty((), dtype=object)
        out[()] = _wrap_cell(a[()])
        return out.view(SArr)
    out = _vwrap(a)
    if not isinstance(out, _np.ndarray):
        o = _np.empty((), dtype=object)
        o[()] = out
        out = o
    return out.astype(object).view(SArr)


def has_sym(x):
    """True if x (array / scalar / nested sequence) contains any symbolic cell."""
    if isinstance(x, (R, SymBool, SymInt, MaskedSel)):
        return True
    if isinstance(x, SArr):
        return True
    if isinstance(x, _np.ndarray):
        return x.dtype == object and any(isinstance(c, (R, SymBool, SymInt)) for c in x.flat)
    if isinstance(x, (list, tuple)):
        return any(has_sym(c) for c in x)
    return False


def _plain(x):
    return x.view(_np.ndarray) if isinstance(x, SArr) else x


def _is_boolarr(a):
    return isinstance(a, _np.ndarray) and a.dtype == object and a.size > 0 and all(isinstance(c, SymBool) for c in a.flat)


class MaskedSel:
    """Lazy `a[mask]` for a symbolic boolean mask along axis 0 (length is symbolic)."""

    def __init__(self, arr, mask):
        self.arr, self.mask = arr, mask

    def _map(self, f):
        return MaskedSel(f(self.arr), self.mask)

    def __sub__(self, o):
        return self._map(lambda a: a - o)

    def __rsub__(self, o):
        return self._map(lambda a: o - a)

    def __add__(self, o):
        return self._map(lambda a: a + o)

    __radd__ = __add__

    def __mul__(self, o):
        if isinstance(o, _np.ndarray) and o.shape == self.arr.shape:
            raise Unsupported("selection * unselected array (shape mismatch in the real code)")
        return self._map(lambda a: a * o)

    __rmul__ = __mul__

    def __pow__(self, e):
        return self._map(lambda a: a**e)

    def sum(self):
        tot = R(0)
        for m, v in zip(self.mask.flat, self.arr.flat):
            tot = tot + ite(m, v, R(0))
        return tot

    @property
    def size(self):
        tot = R(0)
        for m in self.mask.flat:
            tot = tot + ite(m, R(1), R(0))
        return tot


class SArr(_np.ndarray):
    __array_priority__ = 20.0

    def __array_finalize__(self, obj):
        pass

    # ---------------- indexing with symbolic masks
    def _symmask(self, idx):
        first = idx[0] if isinstance(idx, tuple) else idx
        if isinstance(first, _np.ndarray) and first.dtype == object and _is_boolarr(first):
            rest = idx[1:] if isinstance(idx, tuple) else ()
            for r in rest:
                if not (isinstance(r, slice) and r == slice(None)) and r is not Ellipsis:
                    raise Unsupported("symbolic mask combined with non-trivial index")
            if all(c.concrete for c in first.flat):
                return "concrete", _np.array([c.v for c in first.flat], dtype=bool).reshape(first.shape), rest
            return "sym", first, rest
        return None, None, None

    def __getitem__(self, idx):
        kind, mask, rest = self._symmask(idx)
        if kind == "concrete":
            idx = (mask,) + tuple(rest)
        elif kind == "sym":
            return MaskedSel(self, mask)
        out = super().__getitem__(idx)
        return out

    def __setitem__(self, idx, value):
        kind, mask, rest = self._symmask(idx)
        if kind == "concrete":
            idx = (mask,) + tuple(rest)
            if isinstance(value, MaskedSel):
                value = _plain(value.arr)[mask]
        elif kind == "sym":
            base = self.view(_np.ndarray)
            if isinstance(value, MaskedSel):
                if value.mask is not mask and not all(a is b or (a.z3().eq(b.z3())) for a, b in zip(value.mask.flat, mask.flat)):
                    raise Unsupported("a[m1] = b[m2] with different symbolic masks")
                src = _plain(value.arr)
                if src.shape != base.shape:
                    raise Unsupported("masked assignment with mismatching shapes")
                for i in range(base.shape[0]):
                    m = mask[i]
                    if base.ndim == 1:
                        base[i] = ite(m, src[i], base[i])
                    else:
                        bi, si = base[i], src[i]
                        for j in _np.ndindex(bi.shape):
                            bi[j] = ite(m, si[j], bi[j])
                return
            val = _wrap_cell(value) if not isinstance(value, _np.ndarray) else None
            if val is None:
                raise Unsupported("masked assignment of an array")
            for i in range(base.shape[0]):
                m = mask[i]
                if base.ndim == 1:
                    base[i] = ite(m, val, base[i])
                else:
                    bi = base[i]
                    for j in _np.ndindex(bi.shape):
                        bi[j] = ite(m, val, bi[j])
            return
        if isinstance(value, _np.ndarray) and not isinstance(value, SArr):
            value = sarr(value)
        elif not isinstance(value, _np.ndarray):
            if isinstance(value, (list, tuple)):
                value = sarr(value)
            else:
                value = _wrap_cell(value)
        super().__setitem__(idx, value)

    # ---------------- reductions / methods that must not call bool() per element
    def clip(self, lo=None, hi=None, out=None, **kw):
        if out is not None:
            raise Unsupported("clip(out=)")
        res = _np.empty(self.shape, dtype=object)
        src = self.view(_np.ndarray)
        for i in _np.ndindex(self.shape):
            v = src[i]
            if lo is not None:
                v = rmax(v, lo)
            if hi is not None:
                v = rmin(v, hi)
            res[i] = v
        return res.view(SArr)

    def _reduce_axis(self, f, axis, init=None):
        a = self.view(_np.ndarray)
        if axis is None:
            it = list(a.flat)
            acc = init
            for v in it:
                acc = v if acc is None else f(acc, v)
            return acc
        moved = _np.moveaxis(a, axis, 0)
        out = _np.empty(moved.shape[1:], dtype=object)
        for j in _np.ndindex(moved.shape[1:]):
            acc = init
            for k in range(moved.shape[0]):
                v = moved[(k,) + j]
                acc = v if acc is None else f(acc, v)
            out[j] = acc
        return out.view(SArr) if out.ndim else out[()]

    def sum(self, axis=None, **kw):
        return self._reduce_axis(lambda a, b: a + b, axis, init=R(0))

    def max(self, axis=None, **kw):
        if self.size == 0:
            raise ValueError("zero-size array to reduction operation maximum which has no identity")
        return self._reduce_axis(rmax, axis)

    def min(self, axis=None, **kw):
        if self.size == 0:
            raise ValueError("zero-size array to reduction operation minimum which has no identity")
        return self._reduce_axis(rmin, axis)

    def mean(self, axis=None, **kw):
        if sym.have_ctx():  # observation point for harnesses (e.g. the raw density totals before normalisation)
            sym.ctx().notes.setdefault("mean_inputs", []).append(self.view(_np.ndarray).copy())
        n = self.size if axis is None else self.shape[axis]
        return self.sum(axis=axis) / n

    def all(self, axis=None, **kw):
        if axis is not None:
            raise Unsupported("all(axis)")
        return sym_and(list(self.view(_np.ndarray).flat))

    def any(self, axis=None, **kw):
        if axis is not None:
            raise Unsupported("any(axis)")
        return sym_or(list(self.view(_np.ndarray).flat))

    def cumsum(self, axis=None, **kw):
        if self.ndim != 1:
            raise Unsupported("cumsum nd")
        out = _np.empty(self.shape, dtype=object)
        acc = R(0)
        src = self.view(_np.ndarray)
        for i in range(self.shape[0]):
            acc = acc + src[i]
            out[i] = acc
        return out.view(SArr)

    def argsort(self, axis=-1, kind=None, order=None, **kw):
        if self.ndim != 1:
            raise Unsupported("argsort nd")
        a = self.view(_np.ndarray)
        # stable insertion sort; every comparison of symbolic keys is a fork
        idx = []
        for i in range(len(a)):
            pos = len(idx)
            while pos > 0 and bool(a[idx[pos - 1]] > a[i]):
                pos -= 1
            idx.insert(pos, i)
        return _np.array(idx, dtype=_np.intp)

    def argmax(self, axis=None, **kw):
        if self.ndim != 1:
            raise Unsupported("argmax nd")
        a = self.view(_np.ndarray)
        best = 0
        for i in range(1, len(a)):
            if bool(a[i] > a[best]):
                best = i
        return best

    def astype(self, dtype, *a, **kw):
        if dtype in (float, _np.float64, object, "float64", "float"):
            if _is_boolarr(self.view(_np.ndarray)):
                out = _np.empty(self.shape, dtype=object)
                for i in _np.ndindex(self.shape):
                    out[i] = ite(self.view(_np.ndarray)[i], R(1), R(0))
                return out.view(SArr)
            return self.copy()
        raise Unsupported(f"astype({dtype}) on a symbolic array")

    def __bool__(self):
        if self.size == 1:
            return bool(self.view(_np.ndarray).flat[0])
        raise ValueError("The truth value of an array with more than one element is ambiguous")

    def __float__(self):
        if self.size == 1:
            return float(self.view(_np.ndarray).flat[0])
        raise TypeError("only size-1 arrays can be converted")

    # ---------------- ufunc protocol
    def __array_ufunc__(self, ufunc, method, *inputs, out=None, **kw):
        ins = []
        for x in inputs:
            if isinstance(x, MaskedSel):
                raise Unsupported("ufunc on a symbolic-mask selection")
            if isinstance(x, SArr):
                ins.append(x.view(_np.ndarray))
            elif isinstance(x, _np.ndarray) and x.dtype != object:
                ins.append(_plain(sarr(x)))
            elif isinstance(x, (list, tuple)):
                ins.append(_plain(sarr(x)))
            elif sym._is_num(x):
                ins.append(_wrap_cell(x))
            else:
                ins.append(x)
        outs = None
        if out is not None:
            outs = tuple(o.view(_np.ndarray) if isinstance(o, SArr) else o for o in out)
            for o in outs:
                if isinstance(o, _np.ndarray) and o.dtype != object:
                    raise Unsupported("symbolic result written into a float array")
        kw.pop("dtype", None) if ufunc in _CMP else None
        res = _dispatch_ufunc(ufunc, method, ins, outs, kw)
        if isinstance(res, _np.ndarray) and res.dtype == object:
            if res.ndim == 0:
                return res[()]
            return res.view(SArr)
        return res

    def __array_function__(self, func, types, args, kwargs):
        h = _FUNC_OVERRIDES.get(func)
        if h is not None:
            return h(*args, **kwargs)
        res = super().__array_function__(func, types, args, kwargs)
        return _rewrap(res)

    def __repr__(self):
        return "SArr" + _np.ndarray.__repr__(self.view(_np.ndarray))[5:]


def _rewrap(res):
    if isinstance(res, _np.ndarray) and res.dtype == object and not isinstance(res, SArr):
        return res.view(SArr)
    if isinstance(res, tuple):
        return tuple(_rewrap(r) for r in res)
    if isinstance(res, list):
        return [_rewrap(r) for r in res]
    return res


_CMP = {
    _np.less: lambda a, b: a < b,
    _np.less_equal: lambda a, b: a <= b,
    _np.greater: lambda a, b: a > b,
    _np.greater_equal: lambda a, b: a >= b,
    _np.equal: lambda a, b: a == b,
    _np.not_equal: lambda a, b: a != b,
}

_ELEMENTWISE = {
    _np.absolute: lambda a: abs(R(a)),
    _np.sqrt: lambda a: R(a).sqrt(),
    _np.exp: lambda a: R(a).exp(),
    _np.sin: lambda a: R(a).sin(),
    _np.cos: lambda a: R(a).cos(),
    _np.arccos: lambda a: R(a).arccos(),
    _np.arcsin: lambda a: R(a).arcsin(),
    _np.arctan: lambda a: R(a).arctan(),
    _np.rad2deg: lambda a: R(a).rad2deg(),
    _np.deg2rad: lambda a: R(a).deg2rad(),
    _np.sign: rsign,
    _np.square: lambda a: R(a) * R(a),
    _np.negative: lambda a: -R(a),
    _np.positive: lambda a: a,
    _np.logical_not: lambda a: ~sym.as_symbool(a),
    _np.invert: lambda a: ~sym.as_symbool(a),
    _np.conjugate: lambda a: a,
}

_BINARY = {
    _np.maximum: rmax,
    _np.minimum: rmin,
    _np.logical_and: lambda a, b: sym.as_symbool(a) & sym.as_symbool(b),
    _np.logical_or: lambda a, b: sym.as_symbool(a) | sym.as_symbool(b),
    _np.bitwise_and: lambda a, b: sym.as_symbool(a) & sym.as_symbool(b),
    _np.bitwise_or: lambda a, b: sym.as_symbool(a) | sym.as_symbool(b),
    _np.power: lambda a, b: R(a) ** (b if isinstance(b, (int, _np.integer)) else R(b)),
    _np.arctan2: lambda y, x: sym.ctx().ufs.arctan2(y, x),
}
_BINARY.update(_CMP)


def _dispatch_ufunc(ufunc, method, ins, outs, kw):
    kw = {k: v for k, v in kw.items() if k not in ("casting", "order", "subok", "signature")}
    if method == "__call__":
        f = _ELEMENTWISE.get(ufunc)
        if f is not None:
            res = _np.frompyfunc(f, 1, 1)(ins[0])
            return _store(res, outs)
        f = _BINARY.get(ufunc)
        if f is not None:
            res = _np.frompyfunc(f, 2, 1)(ins[0], ins[1])
            return _store(res, outs)
        if ufunc in (_np.add, _np.subtract, _np.multiply, _np.true_divide, _np.matmul, _np.divide):
            if outs is not None:
                return ufunc(*ins, out=outs if len(outs) > 1 else outs[0], **kw)
            return ufunc(*ins, **kw)
        raise Unsupported(f"ufunc {ufunc.__name__} on symbolic arrays")
    if method == "reduce":
        axis = kw.get("axis", 0)
        a = ins[0].view(SArr) if isinstance(ins[0], _np.ndarray) else sarr(ins[0])
        if ufunc is _np.add:
            return a.sum(axis=axis)
        if ufunc is _np.maximum:
            return a.max(axis=axis)
        if ufunc is _np.minimum:
            return a.min(axis=axis)
        if ufunc in (_np.logical_and, _np.bitwise_and):
            return a.all(axis=axis)
        if ufunc in (_np.logical_or, _np.bitwise_or):
            return a.any(axis=axis)
        if ufunc is _np.multiply:
            return a._reduce_axis(lambda x, y: x * y, axis, init=R(1))
    if method == "accumulate" and ufunc is _np.add:
        return ins[0].view(SArr).cumsum()
    if method == "outer" and ufunc is _np.multiply:
        return _np.multiply.outer(*ins)
    raise Unsupported(f"ufunc {ufunc.__name__}.{method} on symbolic arrays")


def _store(res, outs):
    if outs is None:
        return res
    o = outs[0]
    o[...] = res
    return o


# ---------------------------------------------------------------------------------------
# numpy API functions re-implemented for symbolic arrays


def _f_clip(a, a_min=None, a_max=None, out=None, **kw):
    return sarr(a, copy=False).clip(a_min, a_max, out=out)


def _f_where(cond, x=None, y=None):
    if x is None:
        raise Unsupported("np.where(cond) with a symbolic condition")
    c = _np.asarray(_plain(cond) if isinstance(cond, _np.ndarray) else cond)
    xa = _plain(sarr(x, copy=False)) if not isinstance(x, _np.ndarray) or x.dtype != object else _plain(x)
    ya = _plain(sarr(y, copy=False)) if not isinstance(y, _np.ndarray) or y.dtype != object else _plain(y)
    c, xa, ya = _np.broadcast_arrays(c, xa, ya)
    out = _np.empty(c.shape, dtype=object)
    for i in _np.ndindex(c.shape):
        ci = c[i]
        if isinstance(ci, R) and ci is xa[i] and isinstance(ya[i], R) and ya[i].concrete and ya[i].v == 0:
            out[i] = xa[i]  # where(x, x, 0) == x exactly
            continue
        if isinstance(ci, R):  # truthiness of a number: != 0
            ci = ci != 0
        elif not isinstance(ci, SymBool):
            ci = SymBool(bool(ci))
        out[i] = ite(ci, xa[i], ya[i])
    return out.view(SArr)


def _f_sum(a, axis=None, **kw):
    return sarr(a, copy=False).sum(axis=axis)


def _f_all(a, axis=None, **kw):
    if isinstance(a, (list, tuple)):
        return sym_and([x if isinstance(x, (SymBool, bool, _np.bool_)) else sarr(x, copy=False).all() for x in a])
    return sarr(a, copy=False).all(axis=axis)


def _f_any(a, axis=None, **kw):
    if isinstance(a, (list, tuple)):
        return sym_or([x if isinstance(x, (SymBool, bool, _np.bool_)) else sarr(x, copy=False).any() for x in a])
    return sarr(a, copy=False).any(axis=axis)


def _f_trace(a, **kw):
    a = _plain(a)
    t = R(0)
    for i in range(min(a.shape[0], a.shape[1])):
        t = t + a[i, i]
    return t


def det3(m):
    m = _plain(m)
    if m.shape != (3, 3):
        raise Unsupported("det of non-3x3")
    return (
        m[0, 0] * (m[1, 1] * m[2, 2] - m[1, 2] * m[2, 1])
        - m[0, 1] * (m[1, 0] * m[2, 2] - m[1, 2] * m[2, 0])
        + m[0, 2] * (m[1, 0] * m[2, 1] - m[1, 1] * m[2, 0])
    )


def inv3(m):
    m = _plain(m)
    d = det3(m)
    sym.ctx().definedness("inverse of a singular matrix", (R(d) != 0).z3())
    cof = _np.empty((3, 3), dtype=object)
    for i in range(3):
        for j in range(3):
            r = [k for k in range(3) if k != i]
            c = [k for k in range(3) if k != j]
            minor = m[r[0], c[0]] * m[r[1], c[1]] - m[r[0], c[1]] * m[r[1], c[0]]
            cof[i, j] = minor if (i + j) % 2 == 0 else -minor
    return (cof.T / d).view(SArr)


def _f_norm(x, ord=None, axis=None, **kw):
    if ord not in (None, 2, "fro"):
        raise Unsupported("norm ord")
    a = sarr(x, copy=False)
    sq = a * a
    if axis is None:
        return R(sq.sum()).sqrt()
    s = sq.sum(axis=axis)
    return _np.frompyfunc(lambda v: R(v).sqrt(), 1, 1)(_plain(s)).view(SArr)


def _f_cross(a, b, **kw):
    a, b = _plain(sarr(a, copy=False)), _plain(sarr(b, copy=False))
    if a.shape != (3,) or b.shape != (3,):
        raise Unsupported("cross of non-3-vectors")
    out = _np.empty(3, dtype=object)
    out[0] = a[1] * b[2] - a[2] * b[1]
    out[1] = a[2] * b[0] - a[0] * b[2]
    out[2] = a[0] * b[1] - a[1] * b[0]
    return out.view(SArr)


def _f_dot(a, b, out=None):
    a, b = _plain(sarr(a, copy=False)), _plain(sarr(b, copy=False))
    if a.ndim == 1 and b.ndim == 1:
        t = R(0)
        for x, y in zip(a, b):
            t = t + x * y
        return t
    return _rewrap(_np.matmul(a, b)) if a.ndim >= 1 and b.ndim >= 1 else _rewrap(a * b)


def _f_searchsorted(a, v, side="left", sorter=None):
    """Concrete insertion indices; forks on comparisons (a assumed sorted ascending)."""
    if sorter is not None:
        raise Unsupported("searchsorted sorter")
    a = _plain(sarr(a, copy=False))
    va = _plain(sarr(v, copy=False))
    scalar = va.ndim == 0
    va = _np.atleast_1d(va)
    out = _np.empty(va.shape, dtype=_np.intp)
    for k in _np.ndindex(va.shape):
        x = va[k]
        i = 0
        if side == "left":
            while i < len(a) and bool(a[i] < x):
                i += 1
        else:
            while i < len(a) and bool(a[i] <= x):
                i += 1
        out[k] = i
    return int(out[0]) if scalar else out


def _f_argsort(a, axis=-1, **kw):
    return sarr(a, copy=False).argsort(axis=axis)


def _f_cumsum(a, axis=None, **kw):
    return sarr(a, copy=False).cumsum(axis=axis)


def _f_max(a, axis=None, **kw):
    return sarr(a, copy=False).max(axis=axis)


def _f_min(a, axis=None, **kw):
    return sarr(a, copy=False).min(axis=axis)


def _f_mean(a, axis=None, **kw):
    return sarr(a, copy=False).mean(axis=axis)


def _f_triu(m, k=0):
    m = _plain(m)
    out = _np.empty(m.shape, dtype=object)
    for i in _np.ndindex(m.shape):
        out[i] = m[i] if i[-1] - i[-2] >= k else R(0)
    return out.view(SArr)


def _f_diag(v, k=0):
    v = _plain(sarr(v, copy=False))
    if v.ndim == 1:
        n = len(v)
        out = _np.empty((n, n), dtype=object)
        for i in range(n):
            for j in range(n):
                out[i, j] = v[i] if i == j else R(0)
        return out.view(SArr)
    return _np.array([v[i, i] for i in range(min(v.shape))], dtype=object).view(SArr)


def _f_isnan(x, **kw):
    a = sarr(x, copy=False)
    return _np.frompyfunc(lambda c: SymBool(False), 1, 1)(_plain(a)).view(SArr)


_FUNC_OVERRIDES = {
    _np.clip: _f_clip,
    _np.where: _f_where,
    _np.sum: _f_sum,
    _np.all: _f_all,
    _np.any: _f_any,
    _np.trace: _f_trace,
    _np.linalg.det: lambda m: det3(m),
    _np.linalg.inv: lambda m: inv3(m),
    _np.linalg.norm: _f_norm,
    _np.cross: _f_cross,
    _np.dot: _f_dot,
    _np.searchsorted: _f_searchsorted,
    _np.argsort: _f_argsort,
    _np.cumsum: _f_cumsum,
    _np.max: _f_max,
    _np.amax: _f_max,
    _np.min: _f_min,
    _np.amin: _f_min,
    _np.mean: _f_mean,
    _np.triu: _f_triu,
    _np.diag: _f_diag,
    _np.isnan: _f_isnan,
}


# ---------------------------------------------------------------------------------------


class _LinalgProxy:
    def __init__(self, owner):
        self._o = owner

    def __getattr__(self, name):
        ov = self._o._linalg_overrides.get(name)
        if ov is not None:
            return ov
        real = getattr(_real_np.linalg, name)

        def f(*a, **k):
            if has_sym(a):
                h = _FUNC_OVERRIDES.get(real)
                if h is None:
                    raise Unsupported(f"np.linalg.{name} on symbolic input (no stub installed)")
                return h(*a, **k)
            return real(*a, **k)

        return f


class NpProxy:
    """Stands in for the module-level `np` of a PyDRex module during symbolic runs.

    Constructors return symbolic-capable object arrays; scalar math on symbolic values goes to
    the UF layer; everything else is forwarded to numpy (which dispatches back to SArr through
    __array_ufunc__/__array_function__ when a symbolic array is involved).
    """

    def __init__(self, **overrides):
        self._overrides = overrides
        self._linalg_overrides = overrides.pop("linalg", {}) if "linalg" in overrides else {}
        self.linalg = _LinalgProxy(self)
        self.random = overrides.pop("random", _real_np.random)
        self.ma = MaProxy()

    # ---- constructors
    def zeros(self, shape, dtype=None, **kw):
        a = _np.empty(shape, dtype=object)
        a.fill(None)
        flat = a.reshape(-1)
        for i in range(flat.size):
            flat[i] = R(0)
        return a.view(SArr)

    def ones(self, shape, dtype=None, **kw):
        a = self.zeros(shape)
        flat = a.view(_np.ndarray).reshape(-1)
        for i in range(flat.size):
            flat[i] = R(1)
        return a

    def empty(self, shape, dtype=None, **kw):
        a = _np.empty(shape, dtype=object)
        a.fill(None)
        return a.view(SArr)

    def full(self, shape, fill_value, dtype=None, **kw):
        a = _np.empty(shape, dtype=object)
        flat = a.reshape(-1)
        v = _wrap_cell(fill_value)
        for i in range(flat.size):
            flat[i] = v
        return a.view(SArr)

    def zeros_like(self, a, **kw):
        return self.zeros(_np.shape(a))

    def linspace(self, start, stop, num=50, **kw):
        if not has_sym([start, stop]) or kw:
            return _real_np.linspace(start, stop, num, **kw)
        # numpy: start + i * (stop - start) / (num - 1) for i < num - 1, and exactly `stop` as the last sample
        num = int(num)
        a, b = R(start), R(stop)
        out = _np.empty(num, dtype=object)
        for i in range(num):
            out[i] = b if (i == num - 1 and num > 1) else (a + (b - a) * Fraction(i, max(num - 1, 1)))
        return out.view(SArr)

    def eye(self, n, **kw):
        a = self.zeros((n, n))
        for i in range(n):
            a[i, i] = R(1)
        return a

    def array(self, obj, dtype=None, **kw):
        if dtype is not None and dtype not in (float, _np.float64, object, _np.float32):
            if has_sym(obj):
                raise Unsupported(f"np.array(dtype={dtype}) of symbolic data")
            return _real_np.array(obj, dtype=dtype, **kw)
        if isinstance(obj, (list, tuple)) and not has_sym(obj):
            a = _real_np.array(obj, **kw)
            if a.dtype.kind in "fiu" :
                return sarr(a)
            return a
        return sarr(obj)

    def asarray(self, obj, dtype=None, **kw):
        if isinstance(obj, SArr) or hasattr(obj, "_symbolic_shape"):
            return obj
        if has_sym(obj):
            return sarr(obj)
        return _real_np.asarray(obj, dtype=dtype, **kw)

    def atleast_1d(self, *xs):
        outs = []
        for x in xs:
            if isinstance(x, SArr):
                outs.append(x if x.ndim >= 1 else x.reshape(1))
            elif isinstance(x, (R, SymBool)):
                a = _np.empty(1, dtype=object)
                a[0] = x
                outs.append(a.view(SArr))
            else:
                outs.append(_real_np.atleast_1d(x))
        return outs[0] if len(outs) == 1 else outs

    def repeat(self, a, repeats, axis=None):
        if sym._is_num(a):
            return sarr(_real_np.repeat(a, repeats))
        if isinstance(a, (R,)):
            out = _np.empty(repeats, dtype=object)
            for i in range(repeats):
                out[i] = a
            return out.view(SArr)
        return _rewrap(_real_np.repeat(_plain(sarr(a, copy=False)), repeats, axis=axis))

    def hstack(self, tup, **kw):
        parts = [(_plain(sarr(x, copy=False))) for x in tup]
        return _real_np.hstack(parts).view(SArr)

    def stack(self, arrays, axis=0, **kw):
        parts = [(_plain(sarr(x, copy=False))) for x in arrays]
        return _real_np.stack(parts, axis=axis).view(SArr)

    def column_stack(self, tup):
        parts = [(_plain(sarr(x, copy=False))) for x in tup]
        return _real_np.column_stack(parts).view(SArr)

    # ---- scalar / array math
    def _unary(self, name, x, **kw):
        if isinstance(x, R):
            return _ELEMENTWISE[getattr(_real_np, name)](x)
        if isinstance(x, SArr) or has_sym(x):
            return getattr(_real_np, name)(sarr(x, copy=False))
        return getattr(_real_np, name)(x, **kw)

    def abs(self, x):
        if getattr(x, "_rho", None) is not None and hasattr(x, "_abs"):
            return x._abs()  # eigenvalue array: abs().max() is the spectral radius by contract
        return self._unary("absolute", x)

    absolute = abs

    def sqrt(self, x):
        if isinstance(x, SymMasked):
            return x.sqrt()
        if sym._is_num(x) and not isinstance(x, (bool,)) and sym.have_ctx():
            fr = sym.to_fraction(x)
            if isinstance(fr, Fraction) and fr >= 0:
                return R(fr).sqrt()  # exact: algebraic number, not its float rounding
        return self._unary("sqrt", x)

    def exp(self, x):
        return self._unary("exp", x)

    def sin(self, x):
        return self._unary("sin", x)

    def cos(self, x):
        return self._unary("cos", x)

    def arccos(self, x):
        return self._unary("arccos", x)

    def arcsin(self, x):
        return self._unary("arcsin", x)

    def arctan(self, x):
        return self._unary("arctan", x)

    def sign(self, x):
        return self._unary("sign", x)

    def rad2deg(self, x):
        return self._unary("rad2deg", x)

    def deg2rad(self, x):
        return self._unary("deg2rad", x)

    def arctan2(self, y, x):
        if isinstance(y, R) or isinstance(x, R):
            return sym.ctx().ufs.arctan2(y, x)
        if has_sym(y) or has_sym(x):
            return _np.arctan2(sarr(y, copy=False), sarr(x, copy=False))
        return _real_np.arctan2(y, x)

    def clip(self, a, a_min=None, a_max=None, **kw):
        if isinstance(a, R):
            v = a
            if a_min is not None:
                v = rmax(v, a_min)
            if a_max is not None:
                v = rmin(v, a_max)
            return v
        if has_sym(a) or has_sym(a_min) or has_sym(a_max):
            return _f_clip(a, a_min, a_max)
        return _real_np.clip(a, a_min, a_max, **kw)

    def where(self, c, x=None, y=None):
        if has_sym(c) or has_sym(x) or has_sym(y):
            return _f_where(c, x, y)
        return _real_np.where(c, x, y) if x is not None else _real_np.where(c)

    def isclose(self, a, b, rtol=1e-05, atol=1e-08, equal_nan=False):
        if has_sym(a) or has_sym(b):
            a_, b_ = sarr(a, copy=False), sarr(b, copy=False)
            return self.abs(a_ - b_) <= (R(atol) + R(rtol) * self.abs(b_))  # numpy's documented (asymmetric) formula
        return _real_np.isclose(a, b, rtol=rtol, atol=atol, equal_nan=equal_nan)

    def allclose(self, a, b, rtol=1e-05, atol=1e-08, equal_nan=False):
        if has_sym(a) or has_sym(b):
            return _f_all(self.isclose(a, b, rtol=rtol, atol=atol))
        return _real_np.allclose(a, b, rtol=rtol, atol=atol, equal_nan=equal_nan)

    def array_equal(self, a, b, equal_nan=False):
        if has_sym(a) or has_sym(b):
            a_, b_ = sarr(a, copy=False), sarr(b, copy=False)
            if a_.shape != b_.shape:
                return False
            return _f_all(a_ == b_)
        return _real_np.array_equal(a, b, equal_nan=equal_nan)

    def all(self, a, axis=None, **kw):
        if has_sym(a):
            return _f_all(a, axis=axis)
        return _real_np.all(a, axis=axis, **kw)

    def any(self, a, axis=None, **kw):
        if has_sym(a):
            return _f_any(a, axis=axis)
        return _real_np.any(a, axis=axis, **kw)

    def sum(self, a, axis=None, **kw):
        if has_sym(a):
            return _f_sum(a, axis=axis)
        return _real_np.sum(a, axis=axis, **kw)

    def dot(self, a, b):
        if has_sym(a) or has_sym(b):
            return _f_dot(a, b)
        return _real_np.dot(a, b)

    def cross(self, a, b, **kw):
        if has_sym(a) or has_sym(b):
            return _f_cross(a, b)
        return _real_np.cross(a, b, **kw)

    def trace(self, a, **kw):
        if has_sym(a):
            return _f_trace(a)
        return _real_np.trace(a, **kw)

    def triu(self, m, k=0):
        if has_sym(m):
            return _f_triu(m, k)
        return _real_np.triu(m, k)

    def diag(self, v, k=0):
        if has_sym(v):
            return _f_diag(v, k)
        return _real_np.diag(v, k)

    def argsort(self, a, **kw):
        if has_sym(a):
            return _f_argsort(a)
        return _real_np.argsort(a, **kw)

    def searchsorted(self, a, v, side="left", sorter=None):
        if has_sym(a) or has_sym(v):
            return _f_searchsorted(a, v, side=side, sorter=sorter)
        return _real_np.searchsorted(a, v, side=side, sorter=sorter)

    def isnan(self, x):
        if has_sym(x):
            return SymBool(False) if isinstance(x, R) else _f_isnan(x)
        return _real_np.isnan(x)

    def logical_and(self, a, b):
        if has_sym(a) or has_sym(b):
            if isinstance(a, SymBool) or isinstance(b, SymBool):
                return sym.as_symbool(a) & sym.as_symbool(b)
            return _np.logical_and(sarr(a, copy=False), sarr(b, copy=False))
        return _real_np.logical_and(a, b)

    def __getattr__(self, name):
        ov = self.__dict__.get("_overrides", {}).get(name)
        if ov is not None:
            return ov
        return getattr(_real_np, name)


def install(modules, proxy=None, **stubs):
    """Rebind `np` (and any named stubs) in the given modules; returns an undo function."""
    proxy = proxy or NpProxy()
    saved = []
    for m in modules:
        if hasattr(m, "np"):
            saved.append((m, "np", m.np))
            m.np = proxy
    for dotted, val in stubs.items():
        pass
    def undo():
        for m, k, v in reversed(saved):
            setattr(m, k, v)
    return undo


class patched:
    """Context manager: rebind attributes of modules/objects, restore on exit."""

    def __init__(self, *triples):
        self.triples = triples
        self.saved = []

    def __enter__(self):
        for obj, name, val in self.triples:
            self.saved.append((obj, name, getattr(obj, name, _MISSING)))
            setattr(obj, name, val)
        return self

    def __exit__(self, *exc):
        for obj, name, old in reversed(self.saved):
            if old is _MISSING:
                delattr(obj, name)
            else:
                setattr(obj, name, old)
        return False


_MISSING = object()


# ---------------------------------------------------------------------------------------
# minimal numpy.ma stand-in (masked_where / arithmetic / sqrt / filled) for symbolic data


class SymMasked:
    """Masked array with a *concrete* mask (each condition is decided by a fork) and symbolic data.
    Semantics kept: operations act on the unmasked cells only; filled() puts fill_value in masked cells."""

    def __init__(self, data, mask, fill_value=None):
        self.data = _np.asarray(_plain(sarr(data, copy=False)), dtype=object)
        self.mask = _np.asarray(mask, dtype=bool)
        self.fill_value = fill_value

    def _un(self, f):
        out = _np.empty(self.data.shape, dtype=object)
        for i in _np.ndindex(self.data.shape):
            out[i] = None if self.mask[i] else f(self.data[i])
        return SymMasked(out, self.mask, self.fill_value)

    def _bin(self, o, f):
        if isinstance(o, SymMasked):
            mask = self.mask | o.mask
            od = o.data
        else:
            mask = self.mask
            od = _np.broadcast_to(_np.asarray(_plain(sarr(o, copy=False)), dtype=object), self.data.shape)
        out = _np.empty(self.data.shape, dtype=object)
        for i in _np.ndindex(self.data.shape):
            out[i] = None if mask[i] else f(self.data[i], od[i])
        return SymMasked(out, mask, self.fill_value)

    def __pow__(self, e):
        return self._un(lambda a: a**e)

    def __add__(self, o):
        return self._bin(o, lambda a, b: a + b)

    __radd__ = __add__

    def __mul__(self, o):
        return self._bin(o, lambda a, b: a * b)

    __rmul__ = __mul__

    def __truediv__(self, o):
        return self._bin(o, lambda a, b: a / b)

    def __rtruediv__(self, o):
        return self._bin(o, lambda a, b: b / a)

    __array_ufunc__ = None

    def sqrt(self):
        return self._un(lambda a: R(a).sqrt())

    def filled(self, fill_value=None):
        fv = self.fill_value if fill_value is None else fill_value
        out = _np.empty(self.data.shape, dtype=object)
        for i in _np.ndindex(self.data.shape):
            out[i] = _wrap_cell(fv) if self.mask[i] else self.data[i]
        return out.view(SArr)


class MaProxy:
    @staticmethod
    def masked_where(condition, a):
        if not (has_sym(condition) or has_sym(a)):
            return _real_np.ma.masked_where(condition, a)
        cond = _np.asarray(_plain(sarr(condition, copy=False)), dtype=object)
        mask = _np.empty(cond.shape, dtype=bool)
        for i in _np.ndindex(cond.shape):
            mask[i] = bool(cond[i])  # fork: the mask of a masked array is concrete
        return SymMasked(a, mask)

    def __getattr__(self, name):
        return getattr(_real_np.ma, name)
