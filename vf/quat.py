"""Rotations parametrised by unit quaternions (the double cover of SO(3) is onto).

With 9 free entries and six orthonormality equations z3 answers `unknown` on the simplest
identities; with R(q), |q|^2 = 1 the same identities are decided in well under a second.
"""

from __future__ import annotations

import numpy as np

from .sarr import sarr
from .sym import R, real


def quat(prefix):
    """Four symbolic reals (w, x, y, z) and the unit-norm constraint."""
    w, x, y, z = (real(f"{prefix}_{c}") for c in "wxyz")
    unit = (w * w + x * x + y * y + z * z == 1).z3()
    return (w, x, y, z), unit


def rotmat(q):
    """Rotation matrix of quaternion q = (w, x, y, z); orthogonal with det 1 iff |q| = 1."""
    w, x, y, z = q
    m = [
        [1 - 2 * (y * y + z * z), 2 * (x * y - z * w), 2 * (x * z + y * w)],
        [2 * (x * y + z * w), 1 - 2 * (x * x + z * z), 2 * (y * z - x * w)],
        [2 * (x * z - y * w), 2 * (y * z + x * w), 1 - 2 * (x * x + y * y)],
    ]
    return sarr(np.array(m, dtype=object))


def rotmat_h(q):
    """Homogeneous form (entries of degree exactly 2): equals rotmat(q) when |q| = 1."""
    w, x, y, z = q
    m = [
        [w * w + x * x - y * y - z * z, 2 * (x * y - z * w), 2 * (x * z + y * w)],
        [2 * (x * y + z * w), w * w - x * x + y * y - z * z, 2 * (y * z - x * w)],
        [2 * (x * z - y * w), 2 * (y * z + x * w), w * w - x * x - y * y + z * z],
    ]
    return sarr(np.array(m, dtype=object))


def rotmat_float(q):
    w, x, y, z = q
    n = (w * w + x * x + y * y + z * z) ** 0.5
    w, x, y, z = w / n, x / n, y / n, z / n
    return np.array(
        [
            [1 - 2 * (y * y + z * z), 2 * (x * y - z * w), 2 * (x * z + y * w)],
            [2 * (x * y + z * w), 1 - 2 * (x * x + z * z), 2 * (y * z - x * w)],
            [2 * (x * z - y * w), 2 * (y * z + x * w), 1 - 2 * (x * x + y * y)],
        ]
    )


def symmat(prefix, n=3, m=None):
    m = m or n
    a = np.empty((n, m), dtype=object)
    for i in range(n):
        for j in range(m):
            a[i, j] = real(f"{prefix}{i}{j}")
    return a.view(type(sarr([0])))


def symvec(prefix, n):
    a = np.empty(n, dtype=object)
    for i in range(n):
        a[i] = real(f"{prefix}{i}")
    return a.view(type(sarr([0])))
