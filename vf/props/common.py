"""Shared helpers for property modules."""

from __future__ import annotations

import contextlib
import logging
import os
from fractions import Fraction

import numpy as np
import z3

from .. import sarr, solve, sym
from ..sarr import NpProxy, SArr, patched
from ..sym import R, SymBool, explore, real

os.environ.setdefault("NUMBA_DISABLE_JIT", "1")


def pydrex_modules():
    import pydrex  # noqa: F401
    from pydrex import core, diagnostics, geometry, minerals, pathlines, stats, tensors, utils, velocity

    try:
        logging.getLogger("pydrex").setLevel(logging.CRITICAL + 10)
        from pydrex import logger as _log

        for h in list(_log.LOGGER.handlers):
            h.setLevel(logging.CRITICAL + 10)
        _log.LOGGER.disabled = True
    except Exception:  # noqa: BLE001
        pass
    return dict(
        core=core, tensors=tensors, utils=utils, minerals=minerals, stats=stats, geometry=geometry,
        diagnostics=diagnostics, velocity=velocity, pathlines=pathlines,
    )


@contextlib.contextmanager
def np_installed(*modules, proxy=None, extra=()):
    """Rebind the module-level `np` of the given pydrex modules to the symbolic proxy."""
    proxy = proxy or NpProxy()
    triples = [(m, "np", proxy) for m in modules if hasattr(m, "np")]
    triples += list(extra)
    with patched(*triples):
        yield proxy


def zb(x):
    return x.z3() if isinstance(x, (SymBool,)) else x


def eq(a, b):
    """z3 equality of two real-valued things (R / numbers)."""
    a, b = R(a), R(b)
    if a.concrete and b.concrete:
        return z3.BoolVal(a.v == b.v)
    return a.z3() == b.z3()


def all_eq(A, B):
    A = np.asarray(A, dtype=object)
    B = np.asarray(B, dtype=object)
    if A.shape != B.shape:
        raise sym.HarnessError(f"shape mismatch {A.shape} vs {B.shape}")
    cs = [eq(a, b) for a, b in zip(A.flat, B.flat)]
    cs = [c for c in cs if not z3.is_true(c)]
    if not cs:
        return z3.BoolVal(True)
    return z3.And(*cs) if len(cs) > 1 else cs[0]


def ident_mismatches(A, B):
    """How many cells are not already syntactically identical (non-trivial part of a claim)."""
    n = 0
    for a, b in zip(np.asarray(A, dtype=object).flat, np.asarray(B, dtype=object).flat):
        a, b = R(a), R(b)
        if a.concrete and b.concrete:
            n += a.v != b.v
        elif a.concrete or b.concrete or not a.v.eq(b.v):
            n += 1
    return n


def single_path(fn, base=(), feas_ms=400):
    paths, info = explore(fn, base=base, feas_ms=feas_ms)
    if len(paths) != 1 or paths[0].exc is not None:
        # a changed tree may fork or raise where the pinned source has one path: the extra paths become obligations
        # of the running task ("this path is infeasible"), never a harness error
        sess = solve.CURRENT
        if sess is None:
            raise sym.HarnessError(f"expected a single path, got {len(paths)} ({info})")
        import inspect

        p = main_path(sess, paths, inspect.stack()[1].function)
        if p is None:
            raise TaskAbandoned("every path raises")
        return p
    return paths[0]


class TaskAbandoned(Exception):
    """The task recorded failed obligations and cannot continue (not a harness error)."""


def model_json(model, names):
    out = {}
    for n, r in names.items():
        if isinstance(r, (list, tuple, np.ndarray)):
            out[n] = [float(solve.model_value(model, x)) for x in np.asarray(r, dtype=object).flat]
        else:
            out[n] = float(solve.model_value(model, r))
    return out


def frac_of_float(x):
    return Fraction(float(x))


def prove_all(sess, name, pc, claims, tags=None, timeout_ms=None):
    """Prove a list of (label, z3 claim) under pc; batches trivial ones. Returns list of failures."""
    bad = []
    for label, cl in claims:
        if z3.is_true(cl):
            continue
        q = sess.prove(f"{name}:{label}", pc, cl, tags=tags, timeout_ms=timeout_ms)
        if not q.holds:
            bad.append(q)
    return bad


def sample(sess, **kw):
    if len(sess.samples) < 8:
        sess.samples.append({k: (str(v) if not isinstance(v, (int, float, str, list, dict)) else v) for k, v in kw.items()})


def only_path(sess, paths, tag=None):
    """The harness expects a single path. Any additional feasible path (e.g. a fork introduced by a change to the
    code under analysis) is not ignored: it becomes a core obligation 'this extra path is infeasible', which a
    feasible path fails (then the property's generic replay decides)."""
    import inspect

    if not paths:
        raise sym.HarnessError("no path explored")
    if len(paths) > 1:
        where = tag or inspect.stack()[1].function
        for k, p in enumerate(paths[1:], 1):
            what = f"raises {type(p.exc).__name__}: {str(p.exc)[:60]}" if p.exc is not None else "returns"
            if k > 6:
                sess.notes.append(f"{where}: {len(paths) - 1} additional paths in total (only 6 examined)")
                break
            sess.prove(f"{where}: unexpected additional path {k} ({what}) is infeasible", p.pc, z3.BoolVal(False), timeout_ms=8000)
    return paths[0]


def main_path(sess, paths, tag):
    """For harnesses written around the single path of the pinned source.  A changed tree may add paths or make
    the only path raise; neither may end as a harness error (that would not be a detection).  Returns the first
    path that returns a value (all other paths become obligations through `only_path`); when every path raises,
    that is recorded as a failed obligation and None is returned."""
    ok = [q for q in paths if q.exc is None]
    if not ok:
        for k, q in enumerate(paths[:4]):
            sess.prove(f"{tag}: path {k} raises {type(q.exc).__name__}: {str(q.exc)[:80]}", q.pc, z3.BoolVal(False), timeout_ms=8000)
        if not paths:
            sess.prove(f"{tag}: no feasible path", [], z3.BoolVal(False))
        return None
    rest = [q for q in paths if q is not ok[0]]
    return only_path(sess, [ok[0]] + rest, tag=tag)
