"""C05 -- texture depends on the strain path, not on the strain rate.

The real `update_orientations` is run twice in one symbolic execution: history L(t, x) over
[t0, t1], and history k L(k t', x) over [t0/k, t1/k] for a symbolic k > 0. The right-hand sides
(captured through the LSODA stub) are compared at an arbitrary state y: rhs'(t/k, y) = k rhs(t, y)
on all three blocks, with identical arguments reaching the CPO solver; the initial vector and the
solver options scale consistently. Hence the exact solutions coincide for every k > 0.
"""

from __future__ import annotations

import numpy as np
import z3

from .. import quat, stubs, sym
from ..sarr import SArr, sarr
from ..sym import R, real, rmax
from . import kernel
from . import mineral_h as mh
from .common import all_eq, eq, pydrex_modules, sample

TIMEOUT_MS = {"quick": 60000, "thorough": 300000}


def tasks(tier):
    P = kernel.FABRICS
    if tier == "quick":
        return [("t_kernel_zero_strain", {}), ("t_scaling", {"n_grains": 2, "phase": "olivine", "fabric": "olivine_A", "regime": "matrix_dislocation"}),
                ("t_scaling", {"n_grains": 2, "phase": "enstatite", "fabric": "enstatite_AB", "regime": "frictional_yielding"})]
    out = [("t_kernel_zero_strain", {})]
    for ph, fb in P:
        for rg in ("matrix_dislocation", "frictional_yielding"):
            out.append(("t_scaling", {"n_grains": 3, "phase": ph, "fabric": fb, "regime": rg}))
    out += [("t_scaling", {"n_grains": n, "phase": "olivine", "fabric": "olivine_A", "regime": "matrix_dislocation"}) for n in (1, 5)]
    return out


def t_kernel_zero_strain(sess):
    """Lemma used by the kernel stub: the real kernel returns (zeros, 0.0) whenever D = 0, for any L."""
    core = pydrex_modules()["core"]
    P, F, Rg = kernel.enums()
    from .common import np_installed

    for ph, fb in kernel.FABRICS:
        def fn():
            A = quat.symmat("a")
            L = quat.symmat("L")
            p, n, lam, _ = kernel.param_symbols()
            return core._get_rotation_and_strain(getattr(P, ph), getattr(F, fb), A, sarr(np.zeros((3, 3))), L, p, n, lam)

        with np_installed(core):
            paths, info = sym.explore(fn)
        ok = len(paths) == 1 and paths[0].exc is None
        sess.prove(f"kernel[{fb}]: D = 0 has a single non-raising path", [], z3.BoolVal(ok))
        if ok:
            dA, E = paths[0].value
            sess.prove(f"kernel[{fb}]: D = 0 => orientation rate 0 and strain energy 0 for every A, L, p, n, lambda", paths[0].pc,
                       z3.And(all_eq(dA, sarr(np.zeros((3, 3)))), eq(E, 0)))
    sess.satisfiable("kernel zero strain: reach", [])


def uf_field(name, shape):
    """Uninterpreted field: value(t, x) -> array of given shape, each entry a UF of (t, x0, x1, x2)."""

    def f(t, x):
        args = [t] + (list(np.asarray(x, dtype=object).flat) if x is not None else [])
        out = np.empty(shape, dtype=object)
        for i in np.ndindex(shape):
            out[i] = sym.ctx().ufs.generic(name + "".join(map(str, i)), *args)
        return out.view(SArr)

    return f


def t_scaling(sess, n_grains, phase, fabric, regime):
    mods = pydrex_modules()
    minerals = mods["minerals"]
    P, F, Rg = kernel.enums()
    N = n_grains
    sess.encode(minerals.Mineral.update_orientations, mods["utils"].extract_vars)
    sess.bounds["scaling"] = f"n_grains = {N}; k any positive real; L(t, x) and x(t) uninterpreted fields; arbitrary state y; arbitrary valid initial texture; each right-hand side evaluated a second time after an evaluation at another arbitrary time and state"
    sess.assume_env("the grain kernel _get_rotation_and_strain is a deterministic function of its arguments (stub: same arguments -> same results); core.derivatives itself is the real source")
    sess.assume_env("max |eigenvalue| is positively homogeneous: specrad(k D) = k specrad(D) for k > 0")
    sess.outside_claim("rounding-level agreement of two actual LSODA runs (step-size control in floating point)")
    log, dlog = [], []
    plan = stubs.LsodaPlan(steps=1, n_grains=N)
    Lf = uf_field("Lf", (3, 3))
    Xf = uf_field("Xf", (3,))

    def fn():
        log.clear()
        dlog.clear()
        k = real("k")
        c = sym.ctx()
        c.assume((k > 0).z3())
        t0, t1 = real("t0"), real("t1")
        m1, snaps = mh.make_mineral(N, getattr(P, phase), getattr(F, fabric), getattr(Rg, regime))
        mh.assume_valid(snaps)
        m2, _ = mh.make_mineral(N, getattr(P, phase), getattr(F, fabric), getattr(Rg, regime))  # same symbols -> identical texture
        params = mh.sym_params(N, phase_assemblage=(getattr(P, phase),), phase_fractions=(1.0,))
        Fm = quat.symmat("F")
        m1.update_orientations(params, Fm, lambda t, x: Lf(t, x), (t0, t1, lambda t: Xf(t, None)))
        m2.update_orientations(params, Fm, lambda t, x: k * Lf(k * t, x), (t0 / k, t1 / k, lambda t: Xf(k * t, None)))
        s1, s2 = log[0], log[1]
        y = quat.symvec("yy", 10 * N + 9)
        tot = R(0)
        for i in range(9 + 9 * N, 9 + 10 * N):
            tot = tot + rmax(y[i], 0)
        c.assume((tot > 0).z3())
        t = real("t")
        # an earlier evaluation of each right-hand side at another time and state (an integrator calls it many times per
        # update): whatever the closure keeps between calls -- a cached strain rate or scale, say -- must not leak
        ta = real("ta")
        ya = quat.symvec("ya", 10 * N + 9)
        tota = R(0)
        for i in range(9 + 9 * N, 9 + 10 * N):
            tota = tota + rmax(ya[i], 0)
        c.assume((tota > 0).z3())
        s1.fun(ta, ya.copy())
        n0 = len(dlog)
        r1 = s1.fun(t, y.copy())
        n1 = len(dlog)
        s2.fun(ta / k, ya.copy())
        n2 = len(dlog)
        r2 = s2.fun(t / k, y.copy())
        # homogeneity of the spectral radius, instantiated on the applications that occurred
        apps = c.notes.get("specrad_apps", [])
        for a1, rho1 in apps:
            for a2, rho2 in apps:
                if a1 is a2:
                    continue
                c.axiom(z3.Implies(z3.And(*[eq(x2, k * x1) for x1, x2 in zip(a1, a2)]), eq(rho2, k * rho1)))
        return dict(k=k, s1=s1, s2=s2, r1=r1, r2=r2, d1=dlog[n0:n1], d2=dlog[n2:], t0=t0, t1=t1)

    # kernel stub that is a *function*: per grain the same result symbols for both histories;
    # equality of the arguments it receives is proved separately
    def kstub(phase_, fabric_, orientation, strain_rate, velocity_gradient, p_, n_, lam_):
        g = len(dlog) % N
        dlog.append(dict(phase=phase_, fabric=fabric_, orientation=orientation, strain_rate=strain_rate,
                         velocity_gradient=velocity_gradient, p=p_, n=n_, lam=lam_))
        # contract proved on the real kernel in t_kernel_zero_strain: D = 0 => (zeros, 0.0)
        zero = sym.sym_and([x == 0 for x in np.asarray(strain_rate, dtype=object).flat])
        dA = quat.symmat(f"KdA{g}_")
        out = np.empty((3, 3), dtype=object)
        for ij in np.ndindex(3, 3):
            out[ij] = sym.ite(zero, R(0), dA[ij])
        return out.view(SArr), sym.ite(zero, R(0), real(f"KE{g}"))

    core = mods["core"]
    sess.encode(core.derivatives)
    with mh.env(plan, log, extra=[(core, "_get_rotation_and_strain", kstub)]):
        paths, info = sym.explore(fn, max_paths=64)
    tag = f"scaling[{fabric}/{regime}]"
    sess.paths[tag] = {"paths": len(paths), "runs": info["runs"]}
    if info["truncated"]:
        sess.truncated = True
    reached = False
    for pi, p in enumerate(paths):
        pt = f"{tag} path {pi}"
        if p.exc is not None:
            sess.prove(f"{pt}: raises {type(p.exc).__name__}: {str(p.exc)[:60]}", p.pc, z3.BoolVal(False))
            continue
        v = p.value
        k = v["k"]
        pc = p.pc
        if len(v["d1"]) != len(v["d2"]):
            # one history called the CPO solver and the other did not: must be an infeasible combination
            sess.prove(f"{pt}: both histories reach the grain kernel equally often (else infeasible)", pc, z3.BoolVal(False))
            continue
        if not reached and v["d1"]:
            q = sess.satisfiable(f"{tag}: reach", pc + [(k > 2).z3()])
            reached = q.verdict == "sat"
        for a, b in zip(v["d1"], v["d2"]):
            cl = []
            bothzero = z3.And(all_eq(a["strain_rate"], sarr(np.zeros((3, 3)))), all_eq(b["strain_rate"], sarr(np.zeros((3, 3)))))
            for key in a:
                x, y_ = a[key], b[key]
                if isinstance(x, (np.ndarray, R)) or isinstance(y_, (np.ndarray, R)):
                    cl.append(all_eq(np.asarray(x, dtype=object), np.asarray(y_, dtype=object)))
                else:
                    cl.append(z3.BoolVal(bool(x == y_)))
            sess.prove(f"{pt}: every argument reaching the grain kernel is identical for (kL, t/k) and (L, t) (or both strain rates vanish)", pc, z3.Or(z3.And(*cl), bothzero))
        r1, r2 = v["r1"], v["r2"]
        sess.prove(f"{pt}: F block: rhs_kL(t/k, y) = k rhs_L(t, y)", pc, all_eq(r2[:9], k * r1[:9]))
        sess.prove(f"{pt}: orientation block: rhs_kL(t/k, y) = k rhs_L(t, y)", pc, all_eq(r2[9 : 9 + 9 * N], k * r1[9 : 9 + 9 * N]))
        sess.prove(f"{pt}: volume block: rhs_kL(t/k, y) = k rhs_L(t, y)", pc, all_eq(r2[9 + 9 * N :], k * r1[9 + 9 * N :]))
        s1, s2 = v["s1"], v["s2"]
        sess.prove(f"{pt}: initial state vectors identical", pc, all_eq(s1.y0_arg, s2.y0_arg))
        sess.prove(f"{pt}: integration span compressed by 1/k", pc, z3.And(eq(s2.t0 * k, s1.t0), eq(s2.t_bound * k, s1.t_bound)))
        sess.prove(f"{pt}: first step scales with the span (first_step' = first_step / k)", pc, eq(s2.kw["first_step"] * k, s1.kw["first_step"]))
        sess.prove(f"{pt}: absolute and relative tolerances do not depend on k", pc,
                   z3.And(all_eq(s1.kw["atol"], s2.kw["atol"]), z3.BoolVal(s1.kw["rtol"] == s2.kw["rtol"])))
        # every other option handed to the integrator is either dimensionless (identical in both runs) or a time
        # (compressed by 1/k like the span): nothing absolute may enter
        sess.prove(f"{pt}: the two runs hand the same set of options to the integrator", pc, z3.BoolVal(sorted(s1.kw) == sorted(s2.kw)))
        for key in sorted(set(s1.kw) & set(s2.kw)):
            if key in ("first_step", "atol", "rtol"):
                continue
            a_, b_ = s1.kw[key], s2.kw[key]
            if a_ is None and b_ is None:
                continue
            if isinstance(a_, (R, int, float, np.ndarray)) and isinstance(b_, (R, int, float, np.ndarray)) and not isinstance(a_, bool):
                same = all_eq(np.atleast_1d(np.asarray(a_, dtype=object)), np.atleast_1d(np.asarray(b_, dtype=object)))
                timelike = all_eq(np.atleast_1d(np.asarray(b_, dtype=object)) * k, np.atleast_1d(np.asarray(a_, dtype=object)))
                sess.prove(f"{pt}: integrator option '{key}' is scale free or scales with the time span", pc, z3.Or(same, timelike))
            else:
                sess.prove(f"{pt}: integrator option '{key}' is the same in both runs", pc, z3.BoolVal(bool(a_ == b_)))
    if not reached:
        sess.reach.append(type("Q", (), {"name": f"{tag}: reach", "verdict": "unknown", "secs": 0.0})())
    sample(sess, obligation="rate scaling", config=tag, paths=len(paths))


def default_cex(name):
    """Generic public-API replay for verdicts that carry no more specific counterexample."""
    return {"replay": "vf.props.replays:c05_rates", "case": {}, "cls": {"kind": "texture depends on the strain rate"}}
