"""C08 -- multiphase: each phase evolves independently with its own volume factor."""

from __future__ import annotations

import numpy as np
import z3

from .. import quat, stubs, sym
from ..sarr import SArr, patched, sarr
from ..sym import R, real, rmax
from . import kernel
from . import mineral_h as mh
from .C05 import uf_field
from .common import all_eq, eq, main_path, np_installed, pydrex_modules, sample, only_path

TIMEOUT_MS = {"quick": 60000, "thorough": 300000}


def tasks(tier):
    n = 2 if tier == "quick" else 4
    t = [("t_phase_fraction", {"n_grains": n, "phase": ph}) for ph in ("olivine", "enstatite")]
    t += [("t_phi_times_mobility", {"n_grains": n, "regime": rg}) for rg in ("matrix_dislocation", "frictional_yielding")]
    t += [("t_no_shared_state", {"n_grains": n}), ("t_update_all_order", {})]
    return t


def _kw_equal(a, b, skip=()):
    cl = []
    for key in a:
        if key in skip:
            continue
        x, y = a[key], b[key]
        if isinstance(x, (np.ndarray, R)) or isinstance(y, (np.ndarray, R)):
            cl.append(all_eq(np.asarray(x, dtype=object), np.asarray(y, dtype=object)))
        else:
            cl.append(z3.BoolVal(bool(x == y)))
    return z3.And(*cl)


def t_phase_fraction(sess, n_grains, phase):
    """The volume fraction reaching the CPO solver is the one paired with this mineral's phase, for every
    ordering of the assemblage; nothing else depends on the assemblage."""
    mods = pydrex_modules()
    minerals = mods["minerals"]
    P, F, Rg = kernel.enums()
    N = n_grains
    sess.encode(minerals.Mineral.update_orientations)
    sess.bounds["phase_fraction"] = f"n_grains = {N}; assemblages (own,), (own, other), (other, own) with symbolic fractions summing to 1; arbitrary state"
    own = getattr(P, phase)
    other = P.enstatite if phase == "olivine" else P.olivine
    fabric = F.olivine_A if phase == "olivine" else F.enstatite_AB
    log, dlog = [], []
    plan = stubs.LsodaPlan(steps=1, n_grains=N)
    Lf = uf_field("Lf", (3, 3))
    Xf = uf_field("Xf", (3,))

    def fn():
        log.clear()
        dlog.clear()
        phi = real("phi")
        sym.ctx().assume(z3.And((phi > 0).z3(), (phi <= 1).z3()))
        configs = {
            "single": ((own,), (R(1),)),
            "own_first": ((own, other), (phi, 1 - phi)),
            "own_last": ((other, own), (1 - phi, phi)),
            "own_first_lists": ([own, other], [phi, 1 - phi]),
        }
        y = quat.symvec("yy", 10 * N + 9)
        tot = R(0)
        for i in range(9 + 9 * N, 9 + 10 * N):
            tot = tot + rmax(y[i], 0)
        sym.ctx().assume((tot > 0).z3())
        t = real("t")
        out = {}
        base = mh.sym_params(N)
        for name, (asm, fr) in configs.items():
            m, snaps = mh.make_mineral(N, own, fabric, Rg.matrix_dislocation)
            if name == "single":
                mh.assume_valid(snaps)
            params = dict(base, phase_assemblage=asm, phase_fractions=fr)
            m.update_orientations(params, quat.symmat("F"), lambda t_, x: Lf(t_, x), (real("t0"), real("t1"), lambda t_: Xf(t_, None)))
            s = log[-1]
            n0 = len(dlog)
            rhs = s.fun(t, y.copy())
            out[name] = (rhs, dlog[n0:], s)
            if name == "own_first":
                # the SAME parameter dictionary object edited in place (e.g. a fraction sweep) and reused, with the same
                # mineral and with a fresh one: the new fraction must be used (no memoised / shared state)
                psi = real("psi")
                sym.ctx().assume(z3.And((psi > 0).z3(), (psi <= 1).z3()))
                params["phase_fractions"] = (psi, 1 - psi)
                for label, mm in (("same mineral", m), ("fresh mineral", mh.make_mineral(N, own, fabric, Rg.matrix_dislocation)[0])):
                    mm.update_orientations(params, quat.symmat("F"), lambda t_, x: Lf(t_, x), (real("t0"), real("t1"), lambda t_: Xf(t_, None)))
                    s2 = log[-1]
                    n1 = len(dlog)
                    s2.fun(t, y.copy())
                    out[f"reused dict, {label}"] = (None, dlog[n1:], s2, psi)
        return phi, out

    with mh.env(plan, log, derivatives=mh.deriv_stub_factory(dlog, N)):
        paths, info = sym.explore(fn, max_paths=256)
    tag = f"phase fraction[{phase}]"
    sess.paths[tag] = {"paths": len(paths)}
    if info["truncated"]:
        sess.truncated = True
    reached = False
    for k, p in enumerate(paths):
        pt = f"{tag} path {k}"
        if p.exc is not None:
            sess.prove(f"{pt}: raises {type(p.exc).__name__}: {str(p.exc)[:60]}", p.pc, z3.BoolVal(False))
            continue
        phi, out = p.value
        if not reached:
            reached = sess.satisfiable(f"{tag}: reach", p.pc + [(phi < 1).z3()]).verdict == "sat"
        reused = {k_: out.pop(k_) for k_ in list(out) if k_.startswith("reused dict")}
        for label, (_, calls_r, _, psi) in reused.items():
            if calls_r:
                sess.prove(f"{pt}: [{label}] after editing the fractions of the same parameter dictionary in place, the new fraction is used", p.pc,
                           eq(calls_r[0]["volume_fraction"], psi))
        ncalls = {len(v[1]) for v in out.values()}
        if len(ncalls) != 1:
            sess.prove(f"{pt}: all assemblage configurations reach the CPO solver equally often (else infeasible)", p.pc, z3.BoolVal(False))
            continue
        if not out["single"][1]:
            continue
        single = out["single"][1][0]
        sess.prove(f"{pt}: single-phase run passes volume fraction 1", p.pc, eq(single["volume_fraction"], 1))
        for name in ("own_first", "own_last", "own_first_lists"):
            kw = out[name][1][0]
            sess.prove(f"{pt}: [{name}] the volume fraction handed to the CPO solver is this mineral's own phase fraction", p.pc, eq(kw["volume_fraction"], phi))
            sess.prove(f"{pt}: [{name}] every other argument is the same as in the single-phase run", p.pc, _kw_equal(single, kw, skip=("volume_fraction",)))
            sess.prove(f"{pt}: [{name}] initial state vector does not depend on the assemblage", p.pc, all_eq(out[name][2].y0_arg, out["single"][2].y0_arg))
        # simultaneous permutation of phase list and fraction list: same arguments, hence same rhs
        sess.prove(f"{pt}: permuting phase list and fraction list together leaves every CPO-solver argument unchanged", p.pc,
                   _kw_equal(out["own_first"][1][0], out["own_last"][1][0]))
    if not reached:
        sess.reach.append(type("Q", (), {"name": f"{tag}: reach", "verdict": "unknown", "secs": 0.0})())
    sample(sess, obligation="own phase fraction", phase=phase, paths=len(paths))


def t_phi_times_mobility(sess, n_grains, regime):
    """Real derivatives (kernel stubbed): the volume factor enters only through phi * M*."""
    core = pydrex_modules()["core"]
    P, F, Rg = kernel.enums()
    sess.encode(core.derivatives)
    N = n_grains

    def kstub(*a):
        g = len(calls) % N
        calls.append(a)
        return quat.symmat(f"k{g}_"), real(f"kE{g}")

    calls = []

    def fn():
        calls.clear()
        A, f = mh.sym_snapshot("g", N)
        L = quat.symmat("L")
        D = (L + L.transpose()) / 2
        p, n, lam, M, phi = (real(x) for x in ("p", "n", "lam", "M", "phi"))
        args = dict(regime=getattr(Rg, regime), phase=P.olivine, fabric=F.olivine_A, n_grains=N, orientations=A, fractions=f,
                    strain_rate=D, velocity_gradient=L, deformation_gradient_spin=quat.symmat("W"), stress_exponent=p,
                    deformation_exponent=n, nucleation_efficiency=lam, gbm_mobility=M, volume_fraction=phi)
        multi = core.derivatives(**args)
        single = core.derivatives(**{**args, "gbm_mobility": phi * M, "volume_fraction": 1})
        return multi, single

    with np_installed(core), patched((core, "_get_rotation_and_strain", kstub)):
        paths, info = sym.explore(fn)
    p = main_path(sess, paths, f"phi*M [{regime}]")
    if p is None:
        return
    multi, single = p.value
    sess.satisfiable(f"phi*M [{regime}]: reach", p.pc)
    sess.prove(f"phi*M [{regime}]: multiphase volume rates = single-phase volume rates at mobility phi*M*", p.pc, all_eq(multi[1], single[1]))
    sess.prove(f"phi*M [{regime}]: orientation rates do not depend on the phase fraction", p.pc, all_eq(multi[0], single[0]))


def t_no_shared_state(sess, n_grains):
    """Updating one mineral leaves every stored array and attribute of another untouched; the
    default-constructed history lists of two minerals are distinct objects."""
    mods = pydrex_modules()
    minerals = mods["minerals"]
    P, F, Rg = kernel.enums()
    N = n_grains
    log, dlog = [], []
    plan = stubs.LsodaPlan(steps=2, n_grains=N, eval_rhs_each_step=True)

    def fn():
        log.clear()
        dlog.clear()
        a, sa = mh.make_mineral(N, P.olivine, F.olivine_A, Rg.matrix_dislocation, tag="a")
        b, sb = mh.make_mineral(N, P.enstatite, F.enstatite_AB, Rg.matrix_dislocation, tag="b")
        mh.assume_valid(sa)
        mh.assume_valid(sb)
        distinct = a.orientations is not b.orientations and a.fractions is not b.fractions
        before = [x.view(np.ndarray).copy() for x in a.orientations + a.fractions]
        ids = [id(x) for x in a.orientations + a.fractions]
        attrs = (a.phase, a.fabric, a.regime, a.n_grains, a.seed, a.lband, a.uband, len(a.orientations), len(a.fractions))
        phi = real("phi")
        sym.ctx().assume(z3.And((phi > 0).z3(), (phi < 1).z3()))
        params = mh.sym_params(N, phase_assemblage=(P.olivine, P.enstatite), phase_fractions=(phi, 1 - phi))
        params0 = dict(params)
        L = quat.symmat("L")
        b.update_orientations(params, quat.symmat("F"), lambda t, x: L, (real("t0"), real("t1"), lambda t: sarr(np.zeros(3))))
        attrs2 = (a.phase, a.fabric, a.regime, a.n_grains, a.seed, a.lband, a.uband, len(a.orientations), len(a.fractions))
        same_params = all(params[k] is params0[k] for k in params0) and set(params) == set(params0)
        return distinct, before, ids, attrs, attrs2, a, b, same_params

    with mh.env(plan, log, derivatives=mh.deriv_stub_factory(dlog, N)):
        paths, info = sym.explore(fn, max_paths=64)
    sess.paths["no_shared_state"] = {"paths": len(paths)}
    sess.satisfiable("no shared state: reach", paths[0].pc)
    for k, p in enumerate(paths):
        if p.exc is not None:
            sess.prove(f"no shared state path {k}: raises {type(p.exc).__name__}: {str(p.exc)[:60]}", p.pc, z3.BoolVal(False))
            continue
        distinct, before, ids, attrs, attrs2, a, b, same_params = p.value
        sess.prove(f"no shared state path {k}: history lists of two minerals are distinct objects", p.pc, z3.BoolVal(distinct))
        sess.prove(f"no shared state path {k}: mineral A's attributes and snapshot count unchanged by B's update", p.pc, z3.BoolVal(attrs == attrs2))
        now = a.orientations + a.fractions
        sess.prove(f"no shared state path {k}: mineral A's stored arrays are the same objects with identical cells", p.pc,
                   z3.And(z3.BoolVal(all(id(x) == i for x, i in zip(now, ids))), *[all_eq(x, y) for x, y in zip(now, before)]))
        sess.prove(f"no shared state path {k}: B appended exactly one snapshot to itself", p.pc, z3.BoolVal(len(b.orientations) == 2 and len(b.fractions) == 2))
        sess.prove(f"no shared state path {k}: the shared parameter dictionary is not modified", p.pc, z3.BoolVal(same_params))


def t_update_all_order(sess):
    """Bulk update in either mineral order: each mineral gets the same F, params, pathline."""
    minerals = pydrex_modules()["minerals"]
    sess.encode(minerals.update_all)
    calls = []

    class Fake:
        def __init__(self, name):
            self.name = name

        def update_orientations(self, **kw):
            calls.append((self.name, kw))
            return quat.symmat("Fout_" + self.name)

    def fn():
        calls.clear()
        a, b = Fake("a"), Fake("b")
        Fin, params, gv, path = quat.symmat("F"), {"k": 1}, (lambda t, x: None), (real("t0"), real("t1"), None)
        minerals.update_all([a, b], params, Fin, gv, path)
        n = len(calls)
        minerals.update_all([b, a], params, Fin, gv, path)
        return calls[:n], calls[n:], Fin, params, gv, path

    paths, _ = sym.explore(fn)
    p = only_path(sess, paths)
    c1, c2, Fin, params, gv, path = p.value
    sess.satisfiable("update_all order: reach", p.pc)
    by1 = {n: kw for n, kw in c1}
    by2 = {n: kw for n, kw in c2}
    ok = set(by1) == set(by2) == {"a", "b"} and all(
        by1[n][k] is by2[n][k] for n in by1 for k in ("params", "deformation_gradient", "get_velocity_gradient", "pathline"))
    ok = ok and all(kw["deformation_gradient"] is Fin and kw["params"] is params for _, kw in c1 + c2)
    sess.prove("update_all: each mineral receives identical inputs whatever the order of the mineral list", p.pc, z3.BoolVal(ok))


def default_cex(name):
    """Generic public-API replay for verdicts that carry no more specific counterexample."""
    return {"replay": "vf.props.replays:c08_multiphase", "case": {}, "cls": {"kind": "phase does not evolve with its own volume factor"}}
