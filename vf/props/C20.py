"""C20 -- coordinate conversions and pole-figure primitives are geometrically correct."""

from __future__ import annotations

import itertools as it
from fractions import Fraction

import numpy as np
import z3

from .. import poly, quat, solve, stubs, sym
from ..sarr import NpProxy, SArr, patched, sarr
from ..sym import R, real
from .common import all_eq, eq, np_installed, pydrex_modules, sample, only_path

TIMEOUT_MS = {"quick": 60000, "thorough": 300000}
REF_AXES = ["xy", "xz", "yx", "yz", "zx", "zy"]
KERNELS = ["kamb_count", "schmidt_count", "exponential_kamb", "linear_inverse_kamb", "square_inverse_kamb"]


def tasks(tier):
    t = [("t_spherical", {}), ("t_to_cartesian", {})]
    t += [("t_poles", {"ref_axes": ra}) for ra in REF_AXES]
    t += [("t_lambert", {})]
    t += [("t_density", {"kernel": k, "axial": True}) for k in KERNELS]
    t += [("t_density", {"kernel": k, "axial": False}) for k in (KERNELS if tier == "thorough" else ("kamb_count", "linear_inverse_kamb", "exponential_kamb"))]
    return t


def t_spherical(sess):
    geo = pydrex_modules()["geometry"]
    sess.encode(geo.to_spherical, geo.to_cartesian)
    sess.assume_env("trig contracts: (cos, sin)(arctan2(y, x)) = (x, y)/sqrt(x^2 + y^2) (any unit pair at the origin); cos(arccos t) = t, sin(arccos t) = sqrt(1 - t^2)")

    def fn():
        x, y, z = real("x"), real("y"), real("z")
        sym.ctx().assume(z3.Or((x != 0).z3(), (y != 0).z3(), (z != 0).z3()))
        r, phi, theta = geo.to_spherical(x, y, z)
        back = geo.to_cartesian(phi, theta, r)
        costheta = R(theta[0]).cos()
        return (x, y, z), (r, phi, theta), back, costheta

    with np_installed(geo):
        paths, info = sym.explore(fn, catch=(Exception,))
    sess.paths["spherical"] = {"paths": len(paths)}
    reported = False
    for k, p in enumerate(paths):
        if p.exc is not None:
            sess.prove(f"spherical path {k}: raises {type(p.exc).__name__}: {str(p.exc)[:60]}", p.pc, z3.BoolVal(False))
            continue
        (x, y, z), (r, phi, theta), back, costheta = p.value
        for ob in p.obligations:
            site = ob.site or ("?", "?", "?")
            name = f"spherical path {k}: {ob.kind} cannot happen at {site[0]}: `{site[1]}`"
            q = sess.prove(name, ob.pc, ob.cond)
            if not q.holds:
                ce = {"name": name, "case": {"x": 0.0, "y": 0.0, "z": 1.0}, "cls": {"kind": "to_spherical undefined on the z axis", "site_code": site[1]}}
                if not reported:
                    reported = name
                    ce["replay"] = "vf.props.C20:replay_spherical"
                else:
                    ce["same_as"] = reported
                sess.cex.append(ce)
        sess.satisfiable(f"spherical path {k}: reach", p.pc)
        name = f"spherical path {k}: to_cartesian(to_spherical(x, y, z)) = (x, y, z)"
        q = sess.prove(name, p.pc, z3.And(eq(back[0][0], x), eq(back[1][0], y), eq(back[2][0], z)))
        if not q.holds:
            m = q.model
            case = {"x": 1.0, "y": 2.0, "z": 2.0}
            ce = {"name": name, "case": case, "cls": {"kind": "cartesian -> spherical -> cartesian is not the identity"}}
            if not reported:
                reported = name
                ce["replay"] = "vf.props.C20:replay_spherical"
            else:
                ce["same_as"] = reported
            sess.cex.append(ce)
        name = f"spherical path {k}: colatitude convention cos(theta) = z / r, r = |(x, y, z)|"
        q = sess.prove(name, p.pc, z3.And(eq(costheta * r[0], z), eq(r[0] * r[0], x * x + y * y + z * z), (r[0] >= 0).z3()))
        if not q.holds:
            ce = {"name": name, "case": {"x": 1.0, "y": 2.0, "z": 2.0}, "cls": {"kind": "cartesian -> spherical -> cartesian is not the identity"}}
            if not reported:
                reported = name
                ce["replay"] = "vf.props.C20:replay_spherical"
            else:
                ce["same_as"] = reported
            sess.cex.append(ce)
    sample(sess, obligation="spherical round trip", paths=len(paths))


def t_to_cartesian(sess):
    """to_cartesian alone, with and without the radius argument (documented default: the unit sphere):
    (x, y, z) = r (sin(theta) cos(phi), sin(theta) sin(phi), cos(theta)) -- longitude first, colatitude second."""
    geo = pydrex_modules()["geometry"]
    sess.encode(geo.to_cartesian)

    def fn():
        phi, theta, r = real("phi"), real("theta"), real("r")
        trig = (R(phi).sin(), R(phi).cos(), R(theta).sin(), R(theta).cos())
        return (phi, theta, r), geo.to_cartesian(phi, theta, r), geo.to_cartesian(phi, theta), trig

    with np_installed(geo):
        paths, _ = sym.explore(fn, catch=(Exception,))
    p = only_path(sess, paths)
    if p.exc is not None:
        sess.prove(f"to_cartesian: raises {type(p.exc).__name__}: {str(p.exc)[:60]}", p.pc, z3.BoolVal(False))
        return
    (phi, theta, r), full, unit, (sp, cp, st, ct) = p.value
    sess.satisfiable("to_cartesian: reach", p.pc)
    for label, out, rad in (("given radius", full, r), ("default radius 1", unit, R(1))):
        name = f"to_cartesian ({label}): (x, y, z) = r (sin(theta) cos(phi), sin(theta) sin(phi), cos(theta))"
        q = sess.prove(name, p.pc, z3.And(eq(out[0][0], rad * st * cp), eq(out[1][0], rad * st * sp), eq(out[2][0], rad * ct)))
        if not q.holds:
            sess.cex.append({"name": name, "replay": "vf.props.C20:replay_to_cartesian", "case": {}, "cls": {"kind": "to_cartesian does not follow the longitude / colatitude convention"}})


def replay_to_cartesian(case):
    import numpy as np
    from pydrex import geometry as geo

    problems = []
    for phi, theta, r in ((0.3, 1.1, 2.5), (4.0, 2.9, 0.5), (-1.2, 0.4, 1.0)):
        want = np.array([np.sin(theta) * np.cos(phi), np.sin(theta) * np.sin(phi), np.cos(theta)])
        got = np.array([v[0] for v in geo.to_cartesian(phi, theta, r)])
        got1 = np.array([v[0] for v in geo.to_cartesian(phi, theta)])
        if not np.allclose(got, r * want, atol=1e-12):
            problems.append(f"to_cartesian({phi}, {theta}, {r}) = {got.tolist()}")
        if not np.allclose(got1, want, atol=1e-12):
            problems.append(f"to_cartesian({phi}, {theta}) = {got1.tolist()} (default radius)")
    return {"reproduced": bool(problems), "detail": problems[:4] or "convention holds"}


def replay_spherical(case):
    import numpy as np
    from pydrex import geometry as geo

    x, y, z = case["x"], case["y"], case["z"]
    with np.errstate(all="ignore"):
        r, phi, theta = geo.to_spherical(x, y, z)
        back = geo.to_cartesian(phi, theta, r)
    got = [float(b[0]) for b in back]
    ok = np.allclose(got, [x, y, z], atol=1e-12) and np.isclose(np.cos(theta[0]), z / r[0])
    return {"reproduced": not bool(ok), "detail": {"input": [x, y, z], "round_trip": got, "theta": float(theta[0])}}


class GeoLa:
    def norm(self, x, axis=None, **kw):
        from ..sarr import _f_norm, has_sym

        if not has_sym(x):
            import scipy.linalg as la

            return la.norm(x, axis=axis, **kw)
        return _f_norm(x, axis=axis)


def t_poles(sess, ref_axes):
    geo = pydrex_modules()["geometry"]
    sess.encode(geo.poles)
    sess.bounds["poles"] = "2 grains A_g = R(q_g), arbitrary non-zero crystal direction (h, k, l), all six reference-axes strings"

    def fn():
        qs, As = [], []
        for g in range(2):
            q, unit = quat.quat(f"q{g}")
            sym.ctx().assume(unit)
            qs.append(q)
            As.append(quat.rotmat(q).view(np.ndarray))
        A = np.array(As, dtype=object).view(SArr)
        hkl = [real("h"), real("k"), real("l")]
        sym.ctx().assume(z3.Or(*[(c != 0).z3() for c in hkl]))
        out = geo.poles(A, ref_axes=ref_axes, hkl=sarr(np.array(hkl, dtype=object)))
        return qs, A, hkl, out

    with np_installed(geo), patched((geo, "la", GeoLa())):
        paths, info = sym.explore(fn, catch=(Exception,))
    p = only_path(sess, paths)
    if p.exc is not None:
        raise sym.HarnessError(f"poles: {p.exc!r}")
    qs, A, hkl, (xv, yv, zv) = p.value
    tag = f"poles[{ref_axes}]"
    sess.satisfiable(f"{tag}: reach", p.pc)
    rules = poly.Rules()
    for q in qs:
        rules.unit_quat(q)
    from .C13 import sym_sqrt_apps

    apps = sym_sqrt_apps(p)
    for _, (arg, res) in apps:
        rules.square(R(res), R(arg))
    amap = {"x": 0, "y": 1, "z": 2}
    up = (set("xyz") - set(ref_axes)).pop()
    n2 = hkl[0] * hkl[0] + hkl[1] * hkl[1] + hkl[2] * hkl[2]
    norm0 = poly.Normaliser()
    lemmas = []
    for g in range(2):
        d = [sum((A[g][i][j] * hkl[i] for i in range(3)), R(0)) for j in range(3)]  # A^T . hkl: crystal direction in the external frame
        dd = d[0] * d[0] + d[1] * d[1] + d[2] * d[2]
        mine = [(arg, res) for _, (arg, res) in apps if not poly.diff_numerator(norm0, R(arg), dd)]
        sess.prove(f"{tag}: grain {g}: the normalising factor is sqrt(|A^T hkl|^2)", p.pc, z3.BoolVal(len(mine) == 1))
        if len(mine) != 1:
            continue
        sg = R(mine[0][1])
        q = sess.prove_nf(f"{tag}: grain {g}: |A^T hkl|^2 = h^2 + k^2 + l^2 (rotation preserves length), so the normalising factor is |hkl| > 0", p.pc, rules, [sg * sg], [n2])
        if q.holds:
            lemmas.append((sg * sg == n2).z3())
        got = {ref_axes[0]: xv[g], ref_axes[1]: yv[g], up: zv[g]}
        for letter, val in got.items():
            comp = d[amap[letter]]
            sess.prove_nf(f"{tag}: grain {g}: component along {letter} times |hkl| = (A^T hkl)_{letter} (requested direction in the external frame, permuted as '{ref_axes}' specifies)",
                          p.pc, rules, [val * sg], [comp])
        sess.prove_nf(f"{tag}: grain {g}: returned vector is unit", p.pc, rules, [xv[g] * xv[g] + yv[g] * yv[g] + zv[g] * zv[g]], [R(1)])
    for ob in p.obligations:
        sess.prove(f"{tag}: {ob.kind} cannot happen at `{(ob.site or ('', '?'))[1]}`", [c for c in p.pc if True][:0] + ob.pc + lemmas +
                   [z3.Or(*[(c != 0).z3() for c in hkl])], ob.cond)
    sample(sess, obligation="poles", ref_axes=ref_axes, x0=str(xv[0])[:160])


def t_lambert(sess):
    geo = pydrex_modules()["geometry"]
    sess.encode(geo.lambert_equal_area)

    def fn():
        x, y, z = real("x"), real("y"), real("z")
        sym.ctx().assume((x * x + y * y + z * z == 1).z3())
        X, Y = geo.lambert_equal_area(x, y, z)
        return (x, y, z), X[0], Y[0]

    with np_installed(geo):
        paths, info = sym.explore(fn, catch=(Exception,))
    sess.paths["lambert"] = {"paths": len(paths)}
    eps = R(1e-16)
    for k, p in enumerate(paths):
        if p.exc is not None:
            sess.prove(f"lambert path {k}: raises {type(p.exc).__name__}: {str(p.exc)[:80]}", p.pc, z3.BoolVal(False))
            continue
        (x, y, z), X, Y = p.value
        for ob in p.obligations:
            sess.prove(f"lambert path {k}: {ob.kind} cannot happen at `{(ob.site or ('', '?'))[1]}`", ob.pc, ob.cond)
        sess.satisfiable(f"lambert path {k}: reach", p.pc)
        pole = z3.And((abs(x) < eps).z3(), (abs(y) < eps).z3())
        az = abs(z)
        sess.prove(f"lambert path {k}: squared radius X^2 + Y^2 = 1 - |z| (<= 1) away from the pole; the pole maps to (0, 0)", p.pc,
                   z3.If(pole, z3.And(eq(X, 0), eq(Y, 0)), z3.And(eq(X * X + Y * Y, 1 - az), (X * X + Y * Y <= 1).z3())))
        sess.prove(f"lambert path {k}: azimuth unchanged: (X, Y) is a non-negative multiple of (x, y)", p.pc,
                   z3.And(eq(X * y, Y * x), (X * x >= 0).z3(), (Y * y >= 0).z3()))
    sample(sess, obligation="lambert", paths=len(paths))


_UNIT_POOL = [(Fraction(3, 5), Fraction(4, 5), Fraction(0)), (Fraction(0), Fraction(0), Fraction(1)), (Fraction(2, 7), Fraction(3, 7), Fraction(6, 7)),
              (Fraction(-1, 9), Fraction(4, 9), Fraction(8, 9)), (Fraction(2, 3), Fraction(-2, 3), Fraction(1, 3)), (Fraction(-6, 11), Fraction(2, 11), Fraction(-9, 11)),
              (Fraction(1), Fraction(0), Fraction(0)), (Fraction(12, 13), Fraction(0), Fraction(-5, 13))]


def _reach_density(sess, name, pc, path=None):
    """Reachability witness by concretisation: exact rational unit vectors for the two data are substituted into the
    path condition (z3 only has to evaluate it); the solver search is the fall-back."""
    conj = z3.And(*[c if isinstance(c, z3.ExprRef) else z3.BoolVal(bool(c)) for c in pc]) if pc else z3.BoolVal(True)
    # square roots of rational constants (uninterpreted constants with s*s = c, s >= 0) become exact algebraic numbers
    roots = []
    if path is not None:
        for args, r, _ in path.uf_apps.get("sqrt", []):
            if z3.is_rational_value(args[0]):
                roots.append((r, z3.Sqrt(args[0])))
    for a, b in list(it.permutations(_UNIT_POOL[:5], 2)):
        sub = roots + [(z3.Real("w"), z3.RealVal(1))] + [(z3.Real(f"d0{c}"), z3.Q(v.numerator, v.denominator)) for c, v in zip("xyz", a)] + [(z3.Real(f"d1{c}"), z3.Q(v.numerator, v.denominator)) for c, v in zip("xyz", b)]
        if z3.is_true(z3.simplify(z3.substitute(conj, *sub))):  # ground formula: evaluated exactly (algebraic numbers included)
            sess.reach.append(solve.QueryResult(name, "sat", None, 0.0, {"witness": "exact rational data " + str([tuple(map(str, a)), tuple(map(str, b))])}))
            return True
    return sess.satisfiable(name, pc).verdict == "sat"


def t_density(sess, kernel, axial):
    mods = pydrex_modules()
    stats, geo = mods["stats"], mods["geometry"]
    sess.encode(stats.point_density, stats.SPHERICAL_COUNTING_KERNELS[kernel])
    sess.bounds["density"] = "gridsteps = 3 (9 counters), 2 data points on the unit sphere, any positive scalar weight, each of the five kernels; non-zero raw grid mean assumed"
    sess.assume_env("np.exp is an uninterpreted positive function (same argument -> same value)")
    sess.outside_claim("grid sizes beyond 3x3, more than 2 data points, array weights; data for which the raw grid mean is exactly 0 (normalisation undefined)")

    def run(data):
        xs = sarr(np.array([d[0] for d in data], dtype=object))
        ys = sarr(np.array([d[1] for d in data], dtype=object))
        zs = sarr(np.array([d[2] for d in data], dtype=object))
        return stats.point_density(xs, ys, zs, gridsteps=3, kernel=kernel, axial=axial, weights=wsym[0])

    holder = {}
    wsym = [1]

    def fn():
        w = real("w")  # scalar weight of the data: any positive real (small ones make the raw grid mean negative)
        sym.ctx().assume((w > 0).z3())
        wsym[0] = w
        d = []
        for g in range(2):
            v = [real(f"d{g}{c}") for c in "xyz"]
            sym.ctx().assume((v[0] * v[0] + v[1] * v[1] + v[2] * v[2] == 1).z3())
            d.append(v)
        base = run(d)
        swapped = run([d[1], d[0]])
        neg = run([[-c for c in d[0]], d[1]])
        raws = list(sym.ctx().notes.get("mean_inputs", []))
        raw = raws[0]
        m = sum((R(t) for t in raw), R(0)) / raw.size
        pcl = len(sym.ctx().pc)
        want = np.array([sym.ite(R(t) / m < 0, R(0), R(t) / m) for t in raw], dtype=object)
        mean1 = sum((R(t) / m for t in raw), R(0)) / raw.size
        return d, base, swapped, neg, raws, (m, want, mean1)

    class SpyProxy(NpProxy):
        pass

    with np_installed(stats, geo):
        paths, info = sym.explore(fn, catch=(Exception,), max_paths=400)
    tag = f"density[{kernel}, axial={axial}]"
    sess.paths[tag] = {"paths": len(paths), "runs": info["runs"], "pruned": info["infeasible"]}
    if info["truncated"]:
        sess.truncated = True
    reached = 0
    for k, p in enumerate(paths):
        pt = f"{tag} path {k}"
        if p.exc is not None:
            sess.prove(f"{pt}: raises {type(p.exc).__name__}: {str(p.exc)[:80]}", p.pc, z3.BoolVal(False))
            continue
        d, (X, Y, T), (X2, Y2, T2), (X3, Y3, T3), raws, (m, want, mean1) = p.value
        if len(raws) != 3:
            raise sym.HarnessError("expected one normalisation per point_density call")
        raw, raw2, raw3 = raws
        # normalisation divides by the raw grid mean: assumed non-zero (stated precondition)
        pc = list(p.pc)
        bad = [ob for ob in p.obligations if ob.site and "totals.mean()" in ob.site[1]]
        other = [ob for ob in p.obligations if ob not in bad]
        for ob in other:
            sess.prove(f"{pt}: {ob.kind} cannot happen at `{(ob.site or ('', '?'))[1]}`", ob.pc, ob.cond)
        if reached < 1:
            reached += _reach_density(sess, f"{pt}: reach", pc, p)
        Tn = np.asarray(T, dtype=object)
        sess.prove(f"{pt}: estimates are non-negative", pc, z3.And(*[(R(t) >= 0).z3() for t in Tn.flat]))
        inside = all(float(R(a).v) ** 2 + float(R(b).v) ** 2 <= 1 + 1e-12 for a, b in zip(np.asarray(X, dtype=object).flat, np.asarray(Y, dtype=object).flat))
        sess.prove(f"{pt}: grid points lie in the closed unit disk and outputs have the grid shape", pc, z3.BoolVal(inside and Tn.shape == (3, 3)))
        nr = poly.Rules()
        want = want.reshape(Tn.shape)
        sess.prove(f"{pt}: result = raw estimates divided by their grid mean (mean 1 before clipping), negatives clipped to 0", pc + [(m != 0).z3()], all_eq(Tn, want))
        sess.prove_nf(f"{pt}: mean of the normalised estimates before clipping is 1", pc + [(m != 0).z3()], poly.Rules(), [mean1], [R(1)])
        sess.prove_nf(f"{pt}: raw estimates independent of the order of the data (the result is a function of them)", pc, nr, raw2, raw)
        if axial:
            sess.prove_nf(f"{pt}: axial data: raw estimates independent of the sign of a datum", pc, nr, raw3, raw)
    # normalisation to unit mean before clipping: decided on the real function with the clip observed
    if not reached:
        sess.reach.append(solve.QueryResult(f"{tag}: reach", "unknown", None, 0.0))
    sample(sess, obligation="point density", config=tag, paths=len(paths))


def default_cex(name):
    """Generic public-API replay for verdicts that carry no more specific counterexample."""
    return {"replay": "vf.props.replays:c20_geometry", "case": {}, "cls": {"kind": "geometry primitive incorrect"}}
