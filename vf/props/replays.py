"""Generic public-API replays (run in a fresh interpreter with the JIT on).

Each function exercises one clause of a property on concrete inputs chosen to expose the usual ways of
breaking it, and returns {"reproduced": bool, "detail": ...}. They are attached to solver verdicts
(sat, or unknown on a must-hold claim) that carry no more specific counterexample: only what reproduces
here is ever reported as a VIOLATION.
"""

from __future__ import annotations

import itertools as it

import numpy as np


def _mineral(phase="olivine", fabric="olivine_A", regime="matrix_dislocation", n=24, seed=3, fractions=None, orientations=None):
    import pydrex
    from pydrex import core

    return pydrex.Mineral(phase=getattr(core.MineralPhase, phase), fabric=getattr(core.MineralFabric, fabric),
                          regime=getattr(core.DeformationRegime, regime), n_grains=n, seed=seed,
                          fractions_init=fractions, orientations_init=orientations)


def _params(**over):
    from pydrex import core

    p = core.DefaultParams().as_dict()
    p.update(over)
    return p


GENERAL_L = np.array([[0.3, 1.1, -0.4], [-0.2, -0.5, 0.9], [0.7, 0.1, 0.2]])


def c01_history(case):
    """Several updates in every accepted regime (with regime switches and sub-threshold grains): every stored
    snapshot valid, exactly one appended per update, earlier snapshots bit-identical afterwards."""
    from pydrex import core

    problems = []
    rng = np.random.default_rng(0)
    for regimes, chi in ((["matrix_dislocation"] * 3, 0.3), (["matrix_dislocation", "max_viscosity", "min_viscosity", "frictional_yielding", "matrix_diffusion"], 0.4),
                         (["min_viscosity", "matrix_dislocation"], 0.3), (["frictional_yielding"] * 2, 0.0)):
        n = 30
        f0 = rng.dirichlet(np.ones(n) * 0.3)
        m = _mineral(regime=regimes[0], n=n, fractions=f0)
        params = _params(number_of_grains=n, gbs_threshold=chi)
        Fm = np.eye(3)
        for k, rg in enumerate(regimes):
            m.regime = getattr(core.DeformationRegime, rg)
            before = [(a.copy(), b.copy()) for a, b in zip(m.orientations, m.fractions)]
            nb = len(m.orientations)
            try:
                Fm = m.update_orientations(params, Fm, lambda t, x: GENERAL_L, (0.2 * k, 0.2 * (k + 1), lambda t: np.zeros(3)))
            except Exception as e:  # noqa: BLE001
                problems.append(f"{regimes} update {k} ({rg}) raised {type(e).__name__}: {e}")
                break
            if len(m.orientations) != nb + 1 or len(m.fractions) != nb + 1:
                problems.append(f"{regimes} update {k}: {len(m.orientations) - nb} snapshots appended")
            for j, (a, b) in enumerate(before):
                if not (np.array_equal(a, m.orientations[j]) and np.array_equal(b, m.fractions[j])):
                    problems.append(f"{regimes} update {k} ({rg}) altered stored snapshot {j} (max fraction change {np.abs(b - m.fractions[j]).max():.3e})")
            A, f = m.orientations[-1], m.fractions[-1]
            if A.shape != (n, 3, 3) or f.shape != (n,) or not np.all(np.isfinite(A)) or not np.all(np.isfinite(f)):
                problems.append(f"{regimes} update {k}: bad shape or non-finite snapshot")
            elif f.min() < 0 or abs(f.sum() - 1) > 1e-9 or np.abs(A).max() > 1:
                problems.append(f"{regimes} update {k}: invalid snapshot (min f {f.min():.2e}, sum {f.sum():.12f}, max|A| {np.abs(A).max():.6f})")
    return {"reproduced": bool(problems), "detail": problems[:5] or "all stored snapshots valid and immutable"}


def c04_frames(case):
    """Instantaneous rates and integrated textures in a rotated frame / for symmetry-equivalent grains."""
    from pydrex import core
    from scipy.spatial.transform import Rotation

    problems = []
    rng = np.random.default_rng(1)
    for (ph, fb), regime in it.product([("olivine", "olivine_A"), ("olivine", "olivine_C"), ("enstatite", "enstatite_AB")], ["matrix_dislocation"]):
        n = 12
        A = Rotation.random(n, random_state=4).as_matrix()
        f = rng.dirichlet(np.ones(n))
        L = GENERAL_L / np.abs(np.linalg.eigvalsh((GENERAL_L + GENERAL_L.T) / 2)).max()
        D = (L + L.T) / 2
        args = (getattr(core.DeformationRegime, regime), getattr(core.MineralPhase, ph), getattr(core.MineralFabric, fb), n)
        dA, df = core.derivatives(*args, A.copy(), f.copy(), D, L, np.zeros((3, 3)), 1.5, 3.5, 5.0, 125.0, 1.0)
        for Q in Rotation.from_euler("zxz", [[0.7, 1.1, 0.4], [2.0, 0.3, 1.3]]).as_matrix():
            A2 = A @ Q.T
            L2 = Q @ L @ Q.T
            dA2, df2 = core.derivatives(*args, A2.copy(), f.copy(), (L2 + L2.T) / 2, L2, np.zeros((3, 3)), 1.5, 3.5, 5.0, 125.0, 1.0)
            if not (np.allclose(dA2, dA @ Q.T, atol=1e-10) and np.allclose(df2, df, atol=1e-10)):
                problems.append(f"{fb}: instantaneous rates are not frame indifferent (max {np.abs(dA2 - dA @ Q.T).max():.2e}, {np.abs(df2 - df).max():.2e})")
        for S in ([1, -1, -1], [-1, 1, -1], [-1, -1, 1]):
            A3 = A.copy()
            A3[::2] = np.diag(S) @ A3[::2]
            dA3, df3 = core.derivatives(*args, A3.copy(), f.copy(), D, L, np.zeros((3, 3)), 1.5, 3.5, 5.0, 125.0, 1.0)
            want = dA.copy()
            want[::2] = np.diag(S) @ want[::2]
            if not (np.allclose(dA3, want, atol=1e-10) and np.allclose(df3, df, atol=1e-10)):
                problems.append(f"{fb}: lattice two-fold {S} changes the rates")
        # integrated textures
        Q = Rotation.from_euler("zxz", [0.7, 1.1, 0.4]).as_matrix()
        params = _params(number_of_grains=n, phase_assemblage=(getattr(core.MineralPhase, ph),), phase_fractions=(1.0,))
        m1 = _mineral(ph, fb, regime, n, fractions=f.copy(), orientations=A.copy())
        m2 = _mineral(ph, fb, regime, n, fractions=f.copy(), orientations=(A @ Q.T).copy())
        kw = dict(atol=1e-10, rtol=1e-10)
        F1 = m1.update_orientations(params, np.eye(3), lambda t, x: GENERAL_L, (0.0, 0.4, lambda t: np.zeros(3)), **kw)
        F2 = m2.update_orientations(params, Q @ np.eye(3), lambda t, x: Q @ GENERAL_L @ Q.T, (0.0, 0.4, lambda t: np.zeros(3)), **kw)
        eo = np.abs(m2.orientations[-1] - m1.orientations[-1] @ Q.T).max()
        ef = np.abs(m2.fractions[-1] - m1.fractions[-1]).max()
        eF = np.abs(F2 - Q @ F1).max()
        if max(eo, ef, eF) > 1e-5:
            problems.append(f"{fb}: integrated texture is not frame indifferent (orientations {eo:.2e}, fractions {ef:.2e}, F {eF:.2e})")
    return {"reproduced": bool(problems), "detail": problems[:5] or "frame indifferent and symmetry invariant on the replay inputs"}


def c05_rates(case):
    """Same strain path at strain rates k = 1e-16 ... 1e3."""
    from pydrex import core

    problems = []
    for ph, fb in (("olivine", "olivine_A"), ("enstatite", "enstatite_AB")):
        ref = None
        for k in (1.0, 1e-16, 1e-15, 1e-12, 1e-4, 1e3):
            m = _mineral(ph, fb, "matrix_dislocation", 20, seed=5)
            params = _params(number_of_grains=20, phase_assemblage=(m.phase,), phase_fractions=(1.0,))
            Fm = np.eye(3)
            for j in range(2):
                Fm = m.update_orientations(params, Fm, lambda t, x: k * GENERAL_L, (0.3 * j / k, 0.3 * (j + 1) / k, lambda t: np.zeros(3)))
            res = (m.orientations[-1], m.fractions[-1], Fm)
            if ref is None:
                ref = res
                continue
            err = max(np.abs(res[0] - ref[0]).max(), np.abs(res[1] - ref[1]).max(), np.abs(res[2] - ref[2]).max())
            if err > 1e-6:
                problems.append(f"{fb}: k = {k:g}: texture / F differ from the k = 1 run by {err:.2e}")
    return {"reproduced": bool(problems), "detail": problems[:5] or "rate independent on the replay inputs"}


def _rk4(Lfun, xfun, F0, t0, t1, n=4000):
    F = F0.copy()
    h = (t1 - t0) / n
    t = t0
    for _ in range(n):
        k1 = Lfun(t, xfun(t)) @ F
        k2 = Lfun(t + h / 2, xfun(t + h / 2)) @ (F + h / 2 * k1)
        k3 = Lfun(t + h / 2, xfun(t + h / 2)) @ (F + h / 2 * k2)
        k4 = Lfun(t + h, xfun(t + h)) @ (F + h * k3)
        F = F + h / 6 * (k1 + 2 * k2 + 2 * k3 + k4)
        t += h
    return F


def c06_defgrad(case):
    """Returned F against an RK4 solution of dF/dt = L(t, x(t)) F: non-identity F0, time- and position-dependent L,
    different minerals, bulk update."""
    import pydrex
    from pydrex import core

    problems = []
    F0 = np.array([[1.2, 0.3, 0.0], [-0.1, 0.9, 0.2], [0.05, 0.0, 1.1]])
    flows = {
        "constant L": (lambda t, x: GENERAL_L, lambda t: np.zeros(3)),
        "L(t)": (lambda t, x: GENERAL_L * (1 + 0.8 * np.sin(3 * t)) + np.array([[0, t, 0], [0, 0, 0], [0, 0, 0.0]]), lambda t: np.zeros(3)),
        "L(x(t))": (lambda t, x: GENERAL_L + np.outer(x, [0.5, -0.2, 0.1]), lambda t: np.array([t, 2 * t, -t])),
    }
    for name, (Lf, xf) in flows.items():
        want = _rk4(Lf, xf, F0, 0.0, 0.5)
        got = {}
        for ph, fb, rg in (("olivine", "olivine_A", "matrix_dislocation"), ("enstatite", "enstatite_AB", "frictional_yielding"), ("olivine", "olivine_B", "max_viscosity")):
            m = _mineral(ph, fb, rg, 10, seed=2)
            params = _params(number_of_grains=10, phase_assemblage=(m.phase,), phase_fractions=(1.0,))
            Fm = F0.copy()
            for j in range(2):
                Fm = m.update_orientations(params, Fm, Lf, (0.25 * j, 0.25 * (j + 1), xf))
            got[(fb, rg)] = Fm
            rel = np.abs(Fm - want).max() / np.abs(want).max()
            if rel > 5e-3 + 1e-3 * (2 + 2 * 1.0):
                problems.append(f"{name}, {fb}/{rg}: relative error of the returned F is {rel:.3f}")
        ms = [_mineral("olivine", "olivine_A", "matrix_dislocation", 10, seed=2), _mineral("enstatite", "enstatite_AB", "matrix_dislocation", 10, seed=3)]
        params = _params(number_of_grains=10, phase_assemblage=(core.MineralPhase.olivine, core.MineralPhase.enstatite), phase_fractions=(0.7, 0.3))
        Fb = pydrex.update_all(ms, params, F0.copy(), Lf, (0.0, 0.5, xf))
        rel = np.abs(Fb - want).max() / np.abs(want).max()
        if rel > 5e-3 + 1e-3 * 3:
            problems.append(f"{name}: bulk update returns F with relative error {rel:.3f}")
    return {"reproduced": bool(problems), "detail": problems[:5] or "returned F solves dF/dt = L F on the replay inputs"}


def c07_dispatch(case):
    """Every regime / phase / fabric ordinal: accepted ones return, the others raise ValueError."""
    from pydrex import core

    problems = []
    A = np.eye(3).reshape(1, 3, 3)
    L = np.array([[0.0, 0.0, 2.0], [0.0, 0.0, 0.0], [0.0, 0.0, 0.0]])
    for regime in list(range(-2, 11)) + [case.get("regime", 5)]:
        try:
            core.derivatives(regime, 0, 0, 1, A.copy(), np.array([1.0]), (L + L.T) / 2, L, np.zeros((3, 3)), 1.5, 3.5, 5.0, 125.0, 1.0)
            ok = regime in (0, 1, 4, 6, 7)
        except ValueError:
            ok = regime not in (0, 1, 4, 6, 7)
        except Exception as e:  # noqa: BLE001
            ok = False
            problems.append(f"regime ordinal {regime}: {type(e).__name__} instead of ValueError")
        if not ok:
            problems.append(f"regime ordinal {regime}: {'accepted' if regime not in (0, 1, 4, 6, 7) else 'rejected'}")
    good = {(0, k) for k in range(5)} | {(1, 5)}
    for ph, fb in it.product(range(-1, 4), range(-1, 8)):
        try:
            core.get_crss(ph, fb)
            ok = (ph, fb) in good
        except ValueError:
            ok = (ph, fb) not in good
        if not ok:
            problems.append(f"(phase, fabric) = ({ph}, {fb}): {'accepted' if (ph, fb) not in good else 'rejected'}")
    # an update in an unsupported regime must fail and leave the history untouched
    for rg in ("boundary_diffusion", "sliding_diffusion", "sliding_dislocation"):
        m = _mineral(regime=rg, n=8)
        try:
            m.update_orientations(_params(number_of_grains=8), np.eye(3), lambda t, x: L, (0.0, 0.1, lambda t: np.zeros(3)))
            problems.append(f"update in unsupported regime {rg} did not raise")
        except Exception:  # noqa: BLE001
            pass
        if len(m.orientations) != 1 or len(m.fractions) != 1:
            problems.append(f"failed update in regime {rg} left {len(m.orientations)} snapshots")
    return {"reproduced": bool(problems), "detail": sorted(set(problems))[:6] or "dispatch as documented"}


def c07_null(case):
    """Null forcing: zero L, viscosity-bound regimes, zero mobility."""
    from pydrex import core

    problems = []
    for rg in ("min_viscosity", "max_viscosity"):
        m = _mineral(regime=rg, n=10)
        A0, f0 = m.orientations[0].copy(), m.fractions[0].copy()
        m.update_orientations(_params(number_of_grains=10, gbs_threshold=0.0), np.eye(3), lambda t, x: GENERAL_L, (0.0, 0.5, lambda t: np.zeros(3)))
        if not (np.allclose(m.orientations[-1], A0, atol=1e-12) and np.allclose(m.fractions[-1], f0, atol=1e-12)):
            problems.append(f"{rg}: texture changed (max {np.abs(m.orientations[-1] - A0).max():.2e})")
    m = _mineral(n=10)
    A0, f0 = m.orientations[0].copy(), m.fractions[0].copy()
    try:
        with np.errstate(all="ignore"):
            m.update_orientations(_params(number_of_grains=10, gbs_threshold=0.0), np.eye(3), lambda t, x: np.zeros((3, 3)), (0.0, 1.0, lambda t: np.zeros(3)))
        if not (np.allclose(m.orientations[-1], A0, atol=1e-12) and np.allclose(m.fractions[-1], f0, atol=1e-12)):
            problems.append("zero velocity gradient changed the texture")
    except Exception as e:  # noqa: BLE001
        problems.append(f"zero velocity gradient raised {type(e).__name__}")
    m = _mineral(n=10)
    f0 = m.fractions[0].copy()
    m.update_orientations(_params(number_of_grains=10, gbm_mobility=0, gbs_threshold=0.0), np.eye(3), lambda t, x: GENERAL_L, (0.0, 0.3, lambda t: np.zeros(3)))
    if not np.allclose(m.fractions[-1], f0, atol=1e-9):
        problems.append("zero mobility changed the volume fractions")
    return {"reproduced": bool(problems), "detail": problems[:5] or "null forcing leaves the texture unchanged"}


def c08_multiphase(case):
    """Both phase orders, unequal fractions: each mineral = single-phase run with M* scaled by its own fraction;
    permutation of the lists, mineral order in update_all, interleaving."""
    import pydrex
    from pydrex import core

    P = core.MineralPhase
    problems = []

    def run(asm, fr, which, mob=125.0):
        ph, fb = ("olivine", "olivine_A") if which == "olivine" else ("enstatite", "enstatite_AB")
        m = _mineral(ph, fb, "matrix_dislocation", 16, seed=9)
        params = _params(number_of_grains=16, phase_assemblage=asm, phase_fractions=fr, gbm_mobility=mob)
        m.update_orientations(params, np.eye(3), lambda t, x: GENERAL_L, (0.0, 0.3, lambda t: np.zeros(3)))
        return m.orientations[-1], m.fractions[-1]

    for which, own in (("olivine", P.olivine), ("enstatite", P.enstatite)):
        other = P.enstatite if which == "olivine" else P.olivine
        for phi in (0.7, 0.25):
            single = run((own,), (1.0,), which, mob=125.0 * phi)
            a = run((own, other), (phi, 1 - phi), which)
            b = run((other, own), (1 - phi, phi), which)
            c = run([other, own], [1 - phi, phi], which)
            for label, r in (("(own, other)", a), ("(other, own)", b), ("[other, own] lists", c)):
                err = max(np.abs(r[0] - single[0]).max(), np.abs(r[1] - single[1]).max())
                if err > 1e-7:
                    problems.append(f"{which}, phi = {phi}, assemblage {label}: differs from the single-phase run at mobility phi M* by {err:.2e}")
    ms1 = [_mineral("olivine", "olivine_A", n=12, seed=1), _mineral("enstatite", "enstatite_AB", n=12, seed=2)]
    ms2 = [_mineral("enstatite", "enstatite_AB", n=12, seed=2), _mineral("olivine", "olivine_A", n=12, seed=1)]
    params = _params(number_of_grains=12, phase_assemblage=(P.olivine, P.enstatite), phase_fractions=(0.6, 0.4))
    pydrex.update_all(ms1, params, np.eye(3), lambda t, x: GENERAL_L, (0.0, 0.3, lambda t: np.zeros(3)))
    pydrex.update_all(ms2, params, np.eye(3), lambda t, x: GENERAL_L, (0.0, 0.3, lambda t: np.zeros(3)))
    if not (np.array_equal(ms1[0].fractions[-1], ms2[1].fractions[-1]) and np.array_equal(ms1[1].orientations[-1], ms2[0].orientations[-1])):
        problems.append("reordering the minerals handed to update_all changes the result")
    return {"reproduced": bool(problems), "detail": problems[:5] or "each phase evolves with its own volume factor"}
