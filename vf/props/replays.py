"""Generic public-API replays (run in a fresh interpreter with the JIT on).

Each function exercises one clause of a property on concrete inputs chosen to expose the usual ways of
breaking it, and returns {"reproduced": bool, "detail": ...}. They are attached to solver verdicts
(sat, or unknown on a must-hold claim) that carry no more specific counterexample: only what reproduces
here is ever reported as a VIOLATION.
"""

from __future__ import annotations

import itertools as it

import numpy as np


def _mineral(phase="olivine", fabric="olivine_A", regime="matrix_dislocation", n=24, seed=3, fractions=None, orientations=None):
    import pydrex
    from pydrex import core

    return pydrex.Mineral(phase=getattr(core.MineralPhase, phase), fabric=getattr(core.MineralFabric, fabric),
                          regime=getattr(core.DeformationRegime, regime), n_grains=n, seed=seed,
                          fractions_init=fractions, orientations_init=orientations)


def _params(**over):
    from pydrex import core

    p = core.DefaultParams().as_dict()
    p.update(over)
    return p


GENERAL_L = np.array([[0.3, 1.1, -0.4], [-0.2, -0.5, 0.9], [0.7, 0.1, 0.2]])


def c01_history(case):
    """Several updates in every accepted regime (with regime switches and sub-threshold grains): every stored
    snapshot valid, exactly one appended per update, earlier snapshots bit-identical afterwards."""
    from pydrex import core

    problems = []
    rng = np.random.default_rng(0)
    zero_at = {1}
    for regimes, chi in ((["matrix_dislocation"] * 3, 0.3), (["matrix_dislocation", "max_viscosity", "min_viscosity", "frictional_yielding", "matrix_diffusion"], 0.4),
                         (["min_viscosity", "matrix_dislocation"], 0.3), (["frictional_yielding"] * 2, 0.0)):
        n = 30
        f0 = rng.dirichlet(np.ones(n) * 0.3)
        m = _mineral(regime=regimes[0], n=n, fractions=f0)
        # the update is defined by the mineral's own grain count: the parameter record's `number_of_grains` (used when
        # minerals are created from a configuration) is deliberately different here, smaller / larger / default
        params = _params(number_of_grains={0.3: 12, 0.4: 3500, 0.0: n}.get(chi, n + 7) if len(regimes) != 2 or chi == 0.0 else n + 7, gbs_threshold=chi)
        Fm = np.eye(3)
        for k, rg in enumerate(regimes):
            m.regime = getattr(core.DeformationRegime, rg)
            before = [(a.copy(), b.copy()) for a, b in zip(m.orientations, m.fractions)]
            nb = len(m.orientations)
            try:
                Lk = np.zeros((3, 3)) if (k in zero_at and len(regimes) == 3) else GENERAL_L  # a resting interval inside a history
                with np.errstate(all="ignore"):
                    Fm = m.update_orientations(params, Fm, lambda t, x: Lk, (0.2 * k, 0.2 * (k + 1), lambda t: np.zeros(3)))
            except Exception as e:  # noqa: BLE001
                problems.append(f"{regimes} update {k} ({rg}) raised {type(e).__name__}: {e}")
                break
            if len(m.orientations) != nb + 1 or len(m.fractions) != nb + 1:
                problems.append(f"{regimes} update {k}: {len(m.orientations) - nb} snapshots appended")
            for j, (a, b) in enumerate(before):
                if not (np.array_equal(a, m.orientations[j]) and np.array_equal(b, m.fractions[j])):
                    problems.append(f"{regimes} update {k} ({rg}) altered stored snapshot {j} (max fraction change {np.abs(b - m.fractions[j]).max():.3e})")
            A, f = m.orientations[-1], m.fractions[-1]
            if A.shape != (n, 3, 3) or f.shape != (n,) or not np.all(np.isfinite(A)) or not np.all(np.isfinite(f)):
                problems.append(f"{regimes} update {k}: bad shape or non-finite snapshot")
            elif f.min() < 0 or abs(f.sum() - 1) > 1e-9 or np.abs(A).max() > 1:
                problems.append(f"{regimes} update {k}: invalid snapshot (min f {f.min():.2e}, sum {f.sum():.12f}, max|A| {np.abs(A).max():.6f})")
    return {"reproduced": bool(problems), "detail": problems[:5] or "all stored snapshots valid and immutable"}


def c04_frames(case):
    """Instantaneous rates and integrated textures in a rotated frame / for symmetry-equivalent grains."""
    from pydrex import core
    from scipy.spatial.transform import Rotation

    problems = []
    rng = np.random.default_rng(1)
    for (ph, fb), regime in it.product([("olivine", "olivine_A"), ("olivine", "olivine_C"), ("enstatite", "enstatite_AB")], ["matrix_dislocation", "frictional_yielding"]):
        n = 12
        A = Rotation.random(n, random_state=4).as_matrix()
        f = rng.dirichlet(np.ones(n))
        L = GENERAL_L / np.abs(np.linalg.eigvalsh((GENERAL_L + GENERAL_L.T) / 2)).max()
        D = (L + L.T) / 2
        W = rng.normal(size=(3, 3))  # the spin argument is a tensor of the flow: it transforms like L
        args = (getattr(core.DeformationRegime, regime), getattr(core.MineralPhase, ph), getattr(core.MineralFabric, fb), n)
        dA, df = core.derivatives(*args, A.copy(), f.copy(), D, L, W, 1.5, 3.5, 5.0, 125.0, 1.0)
        for Q in Rotation.from_euler("zxz", [[0.7, 1.1, 0.4], [2.0, 0.3, 1.3]]).as_matrix():
            A2 = A @ Q.T
            L2 = Q @ L @ Q.T
            dA2, df2 = core.derivatives(*args, A2.copy(), f.copy(), (L2 + L2.T) / 2, L2, Q @ W @ Q.T, 1.5, 3.5, 5.0, 125.0, 1.0)
            if not (np.allclose(dA2, dA @ Q.T, atol=1e-10) and np.allclose(df2, df, atol=1e-10)):
                problems.append(f"{fb}/{regime}: instantaneous rates are not frame indifferent (max {np.abs(dA2 - dA @ Q.T).max():.2e}, {np.abs(df2 - df).max():.2e})")
        for S in ([1, -1, -1], [-1, 1, -1], [-1, -1, 1]):
            A3 = A.copy()
            A3[::2] = np.diag(S) @ A3[::2]
            dA3, df3 = core.derivatives(*args, A3.copy(), f.copy(), D, L, W, 1.5, 3.5, 5.0, 125.0, 1.0)
            want = dA.copy()
            want[::2] = np.diag(S) @ want[::2]
            if not (np.allclose(dA3, want, atol=1e-10) and np.allclose(df3, df, atol=1e-10)):
                problems.append(f"{fb}/{regime}: lattice two-fold {S} changes the rates")
        # grains on which (some) slip systems resolve no shear: axis-aligned orientations and grains rotated about one axis, in
        # flows with vorticity; frame rotations that are exact in floating point (signed permutations), so that an exactly
        # vanishing resolved shear stays exactly zero in the rotated frame
        perms = [np.array(m, dtype=float) for m in ([[0, 1, 0], [-1, 0, 0], [0, 0, 1]], [[0, 0, 1], [1, 0, 0], [0, 1, 0]], [[1, 0, 0], [0, 0, -1], [0, 1, 0]], [[0, -1, 0], [0, 0, 1], [-1, 0, 0]])]
        Az = Rotation.from_euler("z", [[0.3], [1.2]]).as_matrix()
        Ax = Rotation.from_euler("x", [[0.5], [2.1]]).as_matrix()
        As = np.concatenate([np.eye(3)[None], perms[1][None], perms[2][None], np.diag([-1.0, -1.0, 1.0])[None], Az, Ax, Rotation.random(2, random_state=8).as_matrix()])
        ns = len(As)
        fs = np.full(ns, 1 / ns)
        args_s = args[:3] + (ns,)
        shear = lambda i, j: np.array([[2.0 if (r, c) == (i, j) else 0.0 for c in range(3)] for r in range(3)])  # noqa: E731
        for Ls in (shear(0, 1), shear(1, 2), shear(2, 0), shear(0, 2) + np.diag([0.5, 0.0, -0.5])):
            Ds = (Ls + Ls.T) / 2
            dAs, dfs = core.derivatives(*args_s, As.copy(), fs.copy(), Ds, Ls, W, 1.5, 3.5, 5.0, 125.0, 1.0)
            for Q in perms:
                L2 = Q @ Ls @ Q.T
                dA2, df2 = core.derivatives(*args_s, (As @ Q.T).copy(), fs.copy(), (L2 + L2.T) / 2, L2, Q @ W @ Q.T, 1.5, 3.5, 5.0, 125.0, 1.0)
                if not (np.allclose(dA2, dAs @ Q.T, atol=1e-10) and np.allclose(df2, dfs, atol=1e-10)):
                    problems.append(f"{fb}/{regime}: rates of grains without resolved shear are not frame indifferent (max {np.abs(dA2 - dAs @ Q.T).max():.2e})")
            for S in ([1, -1, -1], [-1, 1, -1], [-1, -1, 1]):
                A3 = As.copy()
                A3[::2] = np.diag(S) @ A3[::2]
                dA3, df3 = core.derivatives(*args_s, A3.copy(), fs.copy(), Ds, Ls, W, 1.5, 3.5, 5.0, 125.0, 1.0)
                want = dAs.copy()
                want[::2] = np.diag(S) @ want[::2]
                if not (np.allclose(dA3, want, atol=1e-10) and np.allclose(df3, dfs, atol=1e-10)):
                    problems.append(f"{fb}/{regime}: lattice two-fold {S} changes the rates of grains without resolved shear (max {np.abs(dA3 - want).max():.2e})")
        # integrated textures
        Q = Rotation.from_euler("zxz", [0.7, 1.1, 0.4]).as_matrix()
        params = _params(number_of_grains=n, phase_assemblage=(getattr(core.MineralPhase, ph),), phase_fractions=(1.0,))
        m1 = _mineral(ph, fb, regime, n, fractions=f.copy(), orientations=A.copy())
        m2 = _mineral(ph, fb, regime, n, fractions=f.copy(), orientations=(A @ Q.T).copy())
        kw = dict(atol=1e-10, rtol=1e-10)
        F1 = m1.update_orientations(params, np.eye(3), lambda t, x: GENERAL_L, (0.0, 0.4, lambda t: np.zeros(3)), **kw)
        F2 = m2.update_orientations(params, Q @ np.eye(3), lambda t, x: Q @ GENERAL_L @ Q.T, (0.0, 0.4, lambda t: np.zeros(3)), **kw)
        eo = np.abs(m2.orientations[-1] - m1.orientations[-1] @ Q.T).max()
        ef = np.abs(m2.fractions[-1] - m1.fractions[-1]).max()
        eF = np.abs(F2 - Q @ F1).max()
        if max(eo, ef, eF) > 1e-5:
            problems.append(f"{fb}/{regime}: integrated texture is not frame indifferent (orientations {eo:.2e}, fractions {ef:.2e}, F {eF:.2e})")
    return {"reproduced": bool(problems), "detail": sorted(set(problems))[:6] or "frame indifferent and symmetry invariant on the replay inputs"}


def c05_rates(case):
    """Same strain path at strain rates k = 1e-16 ... 1e3."""
    from pydrex import core

    problems = []
    for ph, fb in (("olivine", "olivine_A"), ("enstatite", "enstatite_AB")):
        ref = None
        for k in (1.0, 1e-16, 1e-15, 1e-12, 1e-4, 1e3):
            m = _mineral(ph, fb, "matrix_dislocation", 20, seed=5)
            params = _params(number_of_grains=20, phase_assemblage=(m.phase,), phase_fractions=(1.0,))
            Fm = np.eye(3)
            for j in range(2):
                Fm = m.update_orientations(params, Fm, lambda t, x: k * GENERAL_L, (0.3 * j / k, 0.3 * (j + 1) / k, lambda t: np.zeros(3)))
            res = (m.orientations[-1], m.fractions[-1], Fm)
            if ref is None:
                ref = res
                continue
            err = max(np.abs(res[0] - ref[0]).max(), np.abs(res[1] - ref[1]).max(), np.abs(res[2] - ref[2]).max())
            if err > 1e-6:
                problems.append(f"{fb}: k = {k:g}: texture / F differ from the k = 1 run by {err:.2e}")
        # a velocity gradient that changes WITHIN an update (time dependent, and position dependent along a moving pathline)
        ref = None
        Lb = np.array([[0.2, -1.0, 0.3], [0.9, -0.5, 0.2], [-0.6, 0.4, 0.3]])
        for k in (1.0, 1e-15, 1e-12, 1e-4, 1e3):
            m = _mineral(ph, fb, "matrix_dislocation", 20, seed=5)
            params = _params(number_of_grains=20, phase_assemblage=(m.phase,), phase_fractions=(1.0,))
            Fm = np.eye(3)
            Lt = lambda t, x: k * ((1 - k * t) * GENERAL_L + k * t * Lb + x[0] * np.diag([0.3, -0.1, -0.2]))  # noqa: E731
            for j in range(2):
                Fm = m.update_orientations(params, Fm, Lt, (0.3 * j / k, 0.3 * (j + 1) / k, lambda t: np.array([k * t, 0.0, 0.0])))
            res = (m.orientations[-1], m.fractions[-1], Fm)
            if ref is None:
                ref = res
                continue
            err = max(np.abs(res[0] - ref[0]).max(), np.abs(res[1] - ref[1]).max(), np.abs(res[2] - ref[2]).max())
            if err > 1e-5:
                problems.append(f"{fb}: k = {k:g}, velocity gradient varying within the update: texture / F differ from the k = 1 run by {err:.2e}")
    return {"reproduced": bool(problems), "detail": problems[:5] or "rate independent on the replay inputs"}


def _rk4(Lfun, xfun, F0, t0, t1, n=4000):
    F = F0.copy()
    h = (t1 - t0) / n
    t = t0
    for _ in range(n):
        k1 = Lfun(t, xfun(t)) @ F
        k2 = Lfun(t + h / 2, xfun(t + h / 2)) @ (F + h / 2 * k1)
        k3 = Lfun(t + h / 2, xfun(t + h / 2)) @ (F + h / 2 * k2)
        k4 = Lfun(t + h, xfun(t + h)) @ (F + h * k3)
        F = F + h / 6 * (k1 + 2 * k2 + 2 * k3 + k4)
        t += h
    return F


def c06_defgrad(case):
    """Returned F against an RK4 solution of dF/dt = L(t, x(t)) F: non-identity F0, time- and position-dependent L,
    different minerals, bulk update."""
    import pydrex
    from pydrex import core

    problems = []
    F0 = np.array([[1.2, 0.3, 0.0], [-0.1, 0.9, 0.2], [0.05, 0.0, 1.1]])
    flows = {
        "constant L": (lambda t, x: GENERAL_L, lambda t: np.zeros(3)),
        "L(t)": (lambda t, x: GENERAL_L * (1 + 0.8 * np.sin(3 * t)) + np.array([[0, t, 0], [0, 0, 0], [0, 0, 0.0]]), lambda t: np.zeros(3)),
        "L(x(t))": (lambda t, x: GENERAL_L + np.outer(x, [0.5, -0.2, 0.1]), lambda t: np.array([t, 2 * t, -t])),
        "pure spin": (lambda t, x: np.array([[0.0, -1.5, 0.4], [1.5, 0.0, 0.7], [-0.4, -0.7, 0.0]]), lambda t: np.zeros(3)),
        "zero L": (lambda t, x: np.zeros((3, 3)), lambda t: np.zeros(3)),
        # unsteady flows that take the same value at the start, the middle and the end (and at every eighth) of each update
        # interval: sampling the field at a few instants cannot tell them from a steady flow
        "periodic L(t)": (lambda t, x: GENERAL_L + np.sin(8 * np.pi * t) ** 2 * np.array([[0.0, 2.5, 0], [-1.0, 0, 0.5], [0, 0, 0.0]]), lambda t: np.zeros(3)),
        "periodic L(x(t))": (lambda t, x: GENERAL_L + x[0] * np.array([[0.0, 0, 1.5], [0.5, 0, 0], [0, -2.0, 0.0]]), lambda t: np.array([np.sin(16 * np.pi * t) ** 2, 0.0, 0.0])),
    }
    for name, (Lf, xf) in flows.items():
        want = _rk4(Lf, xf, F0, 0.0, 0.5)
        got = {}
        for ph, fb, rg in (("olivine", "olivine_A", "matrix_dislocation"), ("enstatite", "enstatite_AB", "frictional_yielding"), ("olivine", "olivine_B", "max_viscosity")):
            m = _mineral(ph, fb, rg, 10, seed=2)
            params = _params(number_of_grains=10, phase_assemblage=(m.phase,), phase_fractions=(1.0,))
            Fm = F0.copy()
            for j in range(2):
                with np.errstate(all="ignore"):
                    Fm = m.update_orientations(params, Fm, Lf, (0.25 * j, 0.25 * (j + 1), xf))
            got[(fb, rg)] = Fm
            rel = np.abs(Fm - want).max() / np.abs(want).max()
            if rel > 5e-3 + 1e-3 * (2 + 2 * 1.0):
                problems.append(f"{name}, {fb}/{rg}: relative error of the returned F is {rel:.3f}")
        ms = [_mineral("olivine", "olivine_A", "matrix_dislocation", 10, seed=2), _mineral("enstatite", "enstatite_AB", "matrix_dislocation", 10, seed=3)]
        params = _params(number_of_grains=10, phase_assemblage=(core.MineralPhase.olivine, core.MineralPhase.enstatite), phase_fractions=(0.7, 0.3))
        with np.errstate(all="ignore"):
            Fb = pydrex.update_all(ms, params, F0.copy(), Lf, (0.0, 0.5, xf))
        rel = np.abs(Fb - want).max() / np.abs(want).max()
        if rel > 5e-3 + 1e-3 * 3:
            problems.append(f"{name}: bulk update returns F with relative error {rel:.3f}")
    # one mineral object driven through DIFFERENT flows one after the other (other callables, other pathlines): each update must
    # solve its own problem from the F it is given
    names = list(flows)
    for a, b in (("L(t)", "constant L"), ("constant L", "L(x(t))"), ("zero L", "L(t)"), ("periodic L(t)", "pure spin")):
        m = _mineral("olivine", "olivine_A", "matrix_dislocation", 10, seed=2)
        params = _params(number_of_grains=10)
        with np.errstate(all="ignore"):
            F1 = m.update_orientations(params, F0.copy(), flows[a][0], (0.0, 0.25, flows[a][1]))
            F2 = m.update_orientations(params, F1.copy(), flows[b][0], (0.25, 0.5, flows[b][1]))
        want2 = _rk4(flows[b][0], flows[b][1], F1, 0.25, 0.5)
        rel = np.abs(F2 - want2).max() / np.abs(want2).max()
        if rel > 5e-3 + 1e-3 * (2 + 2 * 1.0):
            problems.append(f"same mineral, '{a}' then '{b}': the second update returns F with relative error {rel:.3f}")
    return {"reproduced": bool(problems), "detail": problems[:5] or "returned F solves dF/dt = L F on the replay inputs"}


def c07_dispatch(case):
    """Every regime / phase / fabric ordinal: accepted ones return, the others raise ValueError."""
    from pydrex import core

    problems = []
    A = np.eye(3).reshape(1, 3, 3)
    L = np.array([[0.0, 0.0, 2.0], [0.0, 0.0, 0.0], [0.0, 0.0, 0.0]])
    for regime in list(range(-2, 11)) + [case.get("regime", 5)]:
        try:
            core.derivatives(regime, 0, 0, 1, A.copy(), np.array([1.0]), (L + L.T) / 2, L, np.zeros((3, 3)), 1.5, 3.5, 5.0, 125.0, 1.0)
            ok = regime in (0, 1, 4, 6, 7)
        except ValueError:
            ok = regime not in (0, 1, 4, 6, 7)
        except Exception as e:  # noqa: BLE001
            ok = False
            problems.append(f"regime ordinal {regime}: {type(e).__name__} instead of ValueError")
        if not ok:
            problems.append(f"regime ordinal {regime}: {'accepted' if regime not in (0, 1, 4, 6, 7) else 'rejected'}")
    good = {(0, k) for k in range(5)} | {(1, 5)}
    for ph, fb in it.product(range(-1, 4), range(-1, 8)):
        try:
            core.get_crss(ph, fb)
            ok = (ph, fb) in good
        except ValueError:
            ok = (ph, fb) not in good
        if not ok:
            problems.append(f"(phase, fabric) = ({ph}, {fb}): {'accepted' if (ph, fb) not in good else 'rejected'}")
    # the solver itself with unsupported / mismatched pairs, also for inputs on which no slip system is activated (zero
    # velocity gradient, rigid rotation, an aligned grain under axial compression): ValueError, never numbers
    Ws = np.array([[0.0, 1.0, 0.0], [-1.0, 0.0, 0.0], [0.0, 0.0, 0.0]])
    Lc = np.diag([0.5, 0.5, -1.0])
    for (ph, fb), rg, (lab, Lx) in it.product([(0, 5), (1, 0), (1, 3), (0, 6), (2, 0), (1, 7)], (4, 6), [("simple shear", L), ("zero L", np.zeros((3, 3))), ("rigid rotation", Ws), ("axial compression, aligned grain", Lc)]):
        try:
            core.derivatives(rg, ph, fb, 1, A.copy(), np.array([1.0]), (Lx + Lx.T) / 2, Lx, np.zeros((3, 3)), 1.5, 3.5, 5.0, 125.0, 1.0)
            problems.append(f"solver accepts (phase, fabric) = ({ph}, {fb}) in regime {rg} for {lab}")
        except ValueError:
            pass
        except Exception as e:  # noqa: BLE001
            problems.append(f"solver with (phase, fabric) = ({ph}, {fb}), {lab}: {type(e).__name__} instead of ValueError")
    # ... and through an update: a mineral with a mismatched pair must fail and keep its history
    for lab, Lx in (("zero L", np.zeros((3, 3))), ("rigid rotation", Ws), ("simple shear", L)):
        m = _mineral("enstatite", "olivine_A", "matrix_dislocation", 6, seed=1)
        try:
            m.update_orientations(_params(number_of_grains=6, phase_assemblage=(m.phase,), phase_fractions=(1.0,)), np.eye(3), lambda t, x: Lx, (0.0, 0.1, lambda t: np.zeros(3)))
            problems.append(f"update of a mineral with mismatched phase and fabric did not raise ({lab})")
        except Exception:  # noqa: BLE001
            pass
        if len(m.orientations) != 1 or len(m.fractions) != 1:
            problems.append(f"failed update (mismatched phase and fabric, {lab}) left {len(m.orientations)} snapshots")
    # an update in an unsupported regime must fail and leave the history untouched
    for rg in ("boundary_diffusion", "sliding_diffusion", "sliding_dislocation"):
        m = _mineral(regime=rg, n=8)
        try:
            m.update_orientations(_params(number_of_grains=8), np.eye(3), lambda t, x: L, (0.0, 0.1, lambda t: np.zeros(3)))
            problems.append(f"update in unsupported regime {rg} did not raise")
        except Exception:  # noqa: BLE001
            pass
        if len(m.orientations) != 1 or len(m.fractions) != 1:
            problems.append(f"failed update in regime {rg} left {len(m.orientations)} snapshots")
    # failures AFTER the first solver steps (late regime switch, callable raising at an interior time)
    def late_regime(t, x):
        return core.DeformationRegime.boundary_diffusion if t > 0.6 else core.DeformationRegime.matrix_dislocation

    def raising_L(t, x):
        if 0.6 < t < 0.95:
            raise RuntimeError("velocity gradient unavailable")
        return L

    for label, kw, Lfun in (("late switch to an unsupported regime", dict(get_regime=late_regime), lambda t, x: L), ("callable raising at an interior time", {}, raising_L)):
        m = _mineral(n=8)
        m.update_orientations(_params(number_of_grains=8), np.eye(3), lambda t, x: L, (0.0, 0.2, lambda t: np.zeros(3)))
        before = [(a.copy(), b.copy()) for a, b in zip(m.orientations, m.fractions)]
        try:
            m.update_orientations(_params(number_of_grains=8), np.eye(3), Lfun, (0.0, 1.0, lambda t: np.zeros(3)), **kw)
            problems.append(f"{label}: update did not fail")
        except Exception:  # noqa: BLE001
            pass
        if len(m.orientations) != len(before) or len(m.fractions) != len(before) or any(
                not (np.array_equal(a, c) and np.array_equal(b, d)) for (a, b), c, d in zip(before, m.orientations, m.fractions)):
            problems.append(f"{label}: failed update left {len(m.orientations)} snapshots (was {len(before)}) or altered them")
    # a genuine solver failure part of the way through the interval (fault injection: scipy's LSODA wrapped so that
    # it reports status 'failed' after two accepted steps, which is what LSODA does on repeated convergence failures)
    from pydrex import minerals as _minerals
    from scipy.integrate import LSODA as _RealLSODA

    class FailingLSODA(_RealLSODA):
        accepted = 0

        def step(self):
            if self.accepted >= 2:
                self.status = "failed"
                return "injected: repeated convergence failures"
            self.accepted += 1
            return super().step()

    m = _mineral(n=8)
    m.update_orientations(_params(number_of_grains=8), np.eye(3), lambda t, x: L, (0.0, 0.2, lambda t: np.zeros(3)))
    before = [(a.copy(), b.copy()) for a, b in zip(m.orientations, m.fractions)]
    old = _minerals.LSODA
    _minerals.LSODA = FailingLSODA
    try:
        try:
            m.update_orientations(_params(number_of_grains=8), np.eye(3), lambda t, x: L, (0.2, 1.2, lambda t: np.zeros(3)))
            problems.append("solver failure after two accepted steps: update did not fail")
        except Exception:  # noqa: BLE001
            pass
    finally:
        _minerals.LSODA = old
    if len(m.orientations) != len(before) or len(m.fractions) != len(before) or any(
            not (np.array_equal(a, c) and np.array_equal(b, d)) for (a, b), c, d in zip(before, m.orientations, m.fractions)):
        problems.append(f"solver failure after two accepted steps: failed update left {len(m.orientations)} snapshots (was {len(before)}) or altered them")
    return {"reproduced": bool(problems), "detail": sorted(set(problems))[:6] or "dispatch as documented"}


def c07_null(case):
    """Null forcing: zero L, viscosity-bound regimes, zero mobility."""
    from pydrex import core

    problems = []
    for rg in ("min_viscosity", "max_viscosity"):
        m = _mineral(regime=rg, n=10)
        A0, f0 = m.orientations[0].copy(), m.fractions[0].copy()
        m.update_orientations(_params(number_of_grains=10, gbs_threshold=0.0), np.eye(3), lambda t, x: GENERAL_L, (0.0, 0.5, lambda t: np.zeros(3)))
        if not (np.allclose(m.orientations[-1], A0, atol=1e-12) and np.allclose(m.fractions[-1], f0, atol=1e-12)):
            problems.append(f"{rg}: texture changed (max {np.abs(m.orientations[-1] - A0).max():.2e})")
    m = _mineral(n=10)
    A0, f0 = m.orientations[0].copy(), m.fractions[0].copy()
    try:
        with np.errstate(all="ignore"):
            m.update_orientations(_params(number_of_grains=10, gbs_threshold=0.0), np.eye(3), lambda t, x: np.zeros((3, 3)), (0.0, 1.0, lambda t: np.zeros(3)))
        if not (np.allclose(m.orientations[-1], A0, atol=1e-12) and np.allclose(m.fractions[-1], f0, atol=1e-12)):
            problems.append("zero velocity gradient changed the texture")
    except Exception as e:  # noqa: BLE001
        problems.append(f"zero velocity gradient raised {type(e).__name__}")
    m = _mineral(n=10)
    f0 = m.fractions[0].copy()
    m.update_orientations(_params(number_of_grains=10, gbm_mobility=0, gbs_threshold=0.0), np.eye(3), lambda t, x: GENERAL_L, (0.0, 0.3, lambda t: np.zeros(3)))
    if not np.allclose(m.fractions[-1], f0, atol=1e-9):
        problems.append("zero mobility changed the volume fractions")
    return {"reproduced": bool(problems), "detail": problems[:5] or "null forcing leaves the texture unchanged"}


def c08_multiphase(case):
    """Both phase orders, unequal fractions: each mineral = single-phase run with M* scaled by its own fraction;
    permutation of the lists, mineral order in update_all, interleaving."""
    import pydrex
    from pydrex import core

    P = core.MineralPhase
    problems = []

    def run(asm, fr, which, mob=125.0, regime="matrix_dislocation"):
        ph, fb = ("olivine", "olivine_A") if which == "olivine" else ("enstatite", "enstatite_AB")
        m = _mineral(ph, fb, regime, 16, seed=9)
        params = _params(number_of_grains=16, phase_assemblage=asm, phase_fractions=fr, gbm_mobility=mob)
        m.update_orientations(params, np.eye(3), lambda t, x: GENERAL_L, (0.0, 0.3, lambda t: np.zeros(3)))
        return m.orientations[-1], m.fractions[-1]

    for which, own in (("olivine", P.olivine), ("enstatite", P.enstatite)):
        other = P.enstatite if which == "olivine" else P.olivine
        for phi, rg in it.product((0.7, 0.25), ("matrix_dislocation", "frictional_yielding")):  # both regimes in which the volume factor acts
            single = run((own,), (1.0,), which, mob=125.0 * phi, regime=rg)
            a = run((own, other), (phi, 1 - phi), which, regime=rg)
            b = run((other, own), (1 - phi, phi), which, regime=rg)
            c = run([other, own], [1 - phi, phi], which, regime=rg)
            for label, r in (("(own, other)", a), ("(other, own)", b), ("[other, own] lists", c)):
                err = max(np.abs(r[0] - single[0]).max(), np.abs(r[1] - single[1]).max())
                if err > 1e-7:
                    problems.append(f"{which}, {rg}, phi = {phi}, assemblage {label}: differs from the single-phase run at mobility phi M* by {err:.2e}")
    # one parameter dictionary edited in place between runs (fraction sweep)
    shared = _params(number_of_grains=16, phase_assemblage=(P.olivine, P.enstatite), phase_fractions=(0.9, 0.1))
    for phi in (0.9, 0.5, 0.2):
        shared["phase_fractions"] = (phi, 1 - phi)
        m = _mineral("olivine", "olivine_A", "matrix_dislocation", 16, seed=9)
        m.update_orientations(shared, np.eye(3), lambda t, x: GENERAL_L, (0.0, 0.3, lambda t: np.zeros(3)))
        ref_ = run((P.olivine,), (1.0,), "olivine", mob=125.0 * phi)
        err = max(np.abs(m.orientations[-1] - ref_[0]).max(), np.abs(m.fractions[-1] - ref_[1]).max())
        if err > 1e-7:
            problems.append(f"parameter dictionary reused with phase fraction {phi}: result differs from the single-phase run by {err:.2e} (stale shared state)")
    ms1 = [_mineral("olivine", "olivine_A", n=12, seed=1), _mineral("enstatite", "enstatite_AB", n=12, seed=2)]
    ms2 = [_mineral("enstatite", "enstatite_AB", n=12, seed=2), _mineral("olivine", "olivine_A", n=12, seed=1)]
    params = _params(number_of_grains=12, phase_assemblage=(P.olivine, P.enstatite), phase_fractions=(0.6, 0.4))
    pydrex.update_all(ms1, params, np.eye(3), lambda t, x: GENERAL_L, (0.0, 0.3, lambda t: np.zeros(3)))
    pydrex.update_all(ms2, params, np.eye(3), lambda t, x: GENERAL_L, (0.0, 0.3, lambda t: np.zeros(3)))
    if not (np.array_equal(ms1[0].fractions[-1], ms2[1].fractions[-1]) and np.array_equal(ms1[1].orientations[-1], ms2[0].orientations[-1])):
        problems.append("reordering the minerals handed to update_all changes the result")
    # every accepted regime, including the one whose rates depend on the deformation gradient handed in: a mineral
    # inside a bulk update evolves exactly as it does alone, wherever it stands in the list
    for rg in ("matrix_diffusion", "frictional_yielding", "max_viscosity"):
        mk = lambda: [_mineral("olivine", "olivine_A", rg, 10, seed=4), _mineral("enstatite", "enstatite_AB", rg, 10, seed=5)]  # noqa: E731
        a, b = mk(), mk()[::-1]
        alone = mk()
        for grp in (a, b):
            pydrex.update_all(grp, params, np.eye(3), lambda t, x: GENERAL_L, (0.0, 0.3, lambda t: np.zeros(3)))
        for m in alone:
            m.update_orientations(params, np.eye(3), lambda t, x: GENERAL_L, (0.0, 0.3, lambda t: np.zeros(3)))
        for k in range(2):
            same = (np.array_equal(a[k].orientations[-1], b[1 - k].orientations[-1]) and np.array_equal(a[k].fractions[-1], b[1 - k].fractions[-1])
                    and np.array_equal(a[k].orientations[-1], alone[k].orientations[-1]) and np.array_equal(a[k].fractions[-1], alone[k].fractions[-1]))
            if not same:
                problems.append(f"{rg}: a mineral's texture after update_all depends on its position in the list / differs from the lone update")
    return {"reproduced": bool(problems), "detail": problems[:5] or "each phase evolves with its own volume factor"}


# ---------------------------------------------------------------------------------------


def c11_tensors(case):
    """pydrex.tensors against plain-numpy oracles on random triclinic / non-symmetric inputs."""
    from pydrex import tensors as T
    from scipy.spatial.transform import Rotation

    rng = np.random.default_rng(11)
    problems = []
    vi = lambda p, q: p if p == q else 6 - p - q  # noqa: E731
    for trial in range(3):
        M = rng.normal(size=(6, 6))
        M = M + M.T
        ten = T.voigt_to_elastic_tensor(M)
        want = np.array([[[[M[vi(p, q), vi(r, s)] for s in range(3)] for r in range(3)] for q in range(3)] for p in range(3)])
        if not np.allclose(ten, want):
            problems.append("voigt_to_elastic_tensor index map")
        if not np.allclose(T.elastic_tensor_to_voigt(ten), M):
            problems.append("elastic_tensor_to_voigt is not the inverse map")
        d, v = T.voigt_decompose(M)
        if not (np.allclose(d, np.einsum("ijkk->ij", want)) and np.allclose(v, np.einsum("ikjk->ij", want))):
            problems.append("voigt_decompose is not (C_ijkk, C_ikjk)")
        x = T.voigt_matrix_to_vector(M)
        if not (np.allclose(T.voigt_vector_to_matrix(x), M) and np.isclose(x @ x, (want**2).sum())):
            problems.append("21-vector map is not an inverse pair / isometry")
        y = rng.normal(size=21)
        if not np.allclose(T.voigt_matrix_to_vector(T.voigt_vector_to_matrix(y)), y):
            problems.append("vector -> matrix -> vector is not the identity")
        R1, R2 = Rotation.random(2, random_state=trial + 1).as_matrix()
        rot = T.rotate(want, R1)
        if not np.allclose(rot, np.einsum("ia,jb,kc,ld,abcd->ijkl", R1, R1, R1, R1, want)):
            problems.append("rotate does not obey the transformation law")
        if not (np.isclose((rot**2).sum(), (want**2).sum()) and np.allclose(T.rotate(rot, R2), T.rotate(want, R2 @ R1))):
            problems.append("rotate: norm / group action")
        for P in (T.mono_project, T.ortho_project, T.tetr_project, T.hex_project):
            if not (np.allclose(P(P(y)), P(y)) and np.isclose(P(x) @ y, x @ P(y))):
                problems.append(f"{P.__name__} is not an orthogonal projector")
        if not (np.allclose(T.hex_project(T.tetr_project(y)), T.hex_project(y)) and np.allclose(T.tetr_project(T.ortho_project(y)), T.tetr_project(y))
                and np.allclose(T.ortho_project(T.mono_project(y)), T.ortho_project(y))):
            problems.append("projectors are not nested")
        A = rng.normal(size=(3, 3))
        I1, I2, I3 = T.invariants_second_order(A)
        ev = np.linalg.eigvals(A)
        e2 = ev[0] * ev[1] + ev[1] * ev[2] + ev[2] * ev[0]
        if not (np.isclose(I1, ev.sum().real) and np.isclose(I2, e2.real) and np.isclose(I3, np.prod(ev).real)):
            problems.append(f"invariants_second_order != elementary symmetric functions of the eigenvalues (I2 {I2:.4f} vs {e2.real:.4f})")
        # "all real 3x3 matrices": every magnitude (velocity gradients are ~1e-15 /s in SI units), singular and reflected ones
        # for the left variant; comparisons are relative to the size of the input
        cases = [(A * sc, lf) for sc in (1.0, 1e3, 1e-6, 1e-11, 1e-15) for lf in (True, False)]
        cases += [(np.outer(A[0], A[1]), True), (A @ np.diag([1.0, 1.0, -1.0]), True), (np.array([[0.0, 2e-15, 0], [0, 0, 0], [0, 0, 0]]), True)]
        for B, left in cases:
            sz = np.abs(B).max()
            try:
                Rm, S = T.polar_decompose(B, left=left)
            except Exception as e:  # noqa: BLE001
                problems.append(f"polar_decompose(left={left}) raised {type(e).__name__} for a matrix of size {sz:.0e}")
                continue
            prod = S @ Rm if left else Rm @ S
            if not (np.allclose(Rm @ Rm.T, np.eye(3), atol=1e-9) and np.allclose(S, S.T, rtol=0, atol=1e-9 * sz) and np.allclose(prod, B, rtol=0, atol=1e-9 * sz)
                    and np.linalg.eigvalsh((S + S.T) / 2).min() > -1e-9 * sz):
                problems.append(f"polar_decompose(left={left}) for a matrix of size {sz:.0e}")
    return {"reproduced": bool(problems), "detail": sorted(set(problems))[:6] or "tensor representations consistent on the replay inputs"}


def c13_diagnostics(case):
    from pydrex import diagnostics as dg
    from pydrex import stats, utils
    from scipy.spatial.transform import Rotation

    problems = []
    base = Rotation.from_euler("zxz", [0.6, 0.9, 0.3])
    A = (Rotation.from_rotvec(0.25 * np.random.default_rng(2).normal(size=(300, 3))) * base).as_matrix()
    Q = Rotation.from_euler("zxz", [1.0, 0.5, 2.0]).as_matrix()
    for ax, row in (("a", 0), ("b", 1), ("c", 2)):
        S = stats._scatter_matrix(A, row)
        full = np.einsum("gi,gj->ij", A[:, row, :], A[:, row, :])
        if not np.allclose(np.tril(S), np.tril(full)):
            problems.append(f"scatter matrix [{ax}] lower triangle is not sum v v^T of the crystal axis")
        w, V = np.linalg.eigh(full)
        m = dg.bingham_average(A, axis=ax)
        if not (np.isclose(np.linalg.norm(m), 1) and abs(abs(m @ V[:, -1]) - 1) < 1e-8):
            problems.append(f"Bingham mean [{ax}] is not the principal eigenvector of the scatter matrix")
        pgr = np.array(dg.symmetry_pgr(A, axis=ax))
        wd = w[::-1]
        want = np.array([wd[0] - wd[1], 2 * (wd[1] - wd[2]), 3 * wd[2]]) / w.sum()
        if not (np.allclose(pgr, want) and np.isclose(pgr.sum(), 1) and pgr.min() >= -1e-12 and pgr.max() <= 1 + 1e-12):
            problems.append(f"P, G, R [{ax}] wrong or outside [0, 1]")
        pgr2 = np.array(dg.symmetry_pgr(A @ Q.T, axis=ax))
        m2 = dg.bingham_average(A @ Q.T, axis=ax)
        if not (np.allclose(pgr2, pgr, atol=1e-9) and abs(abs(m2 @ (Q @ m)) - 1) < 1e-8):
            problems.append(f"[{ax}] not frame independent / mean axis does not co-rotate")
        perm = np.random.default_rng(3).permutation(len(A))
        A3 = A[perm].copy()
        A3[::3] = np.diag([1, -1, -1]) @ A3[::3]
        if not np.allclose(dg.symmetry_pgr(A3, axis=ax), pgr, atol=1e-9):
            problems.append(f"[{ax}] changes under reordering / lattice two-fold relabelling")
    ba = dg.coaxial_index(A)
    if not 0 <= ba <= 1:
        problems.append("coaxial index outside [0, 1]")
    # girdle / point / random textures, every ordered pair of axes: range and the defining formula in terms of the
    # public point / girdle indices of the two axes
    rs = np.random.default_rng(21)
    ang = rs.uniform(0, 2 * np.pi, 80)
    spin_a = Rotation.from_rotvec(np.outer(ang, [1.0, 0.0, 0.0])).as_matrix()  # a-axes fixed, b- and c-axes on a girdle
    spin_b = Rotation.from_rotvec(np.outer(ang, [0.0, 1.0, 0.0])).as_matrix()
    textures = {"a-point / b,c-girdle": spin_a, "b-point / a,c-girdle": spin_b, "random": Rotation.random(80, random_state=5).as_matrix(),
                "clustered": (Rotation.from_rotvec(rs.normal(size=(80, 3)) * 0.2)).as_matrix()}
    for label, T in textures.items():
        for a1, a2 in it.permutations("abc", 2):
            got = dg.coaxial_index(T, axis1=a1, axis2=a2)
            P1, G1, _ = dg.symmetry_pgr(T, axis=a1)
            P2, G2, _ = dg.symmetry_pgr(T, axis=a2)
            want = 0.5 * (2 - P1 / (G1 + P1) - G2 / (G2 + P2))
            if not (-1e-12 <= got <= 1 + 1e-12) or not np.isclose(got, want, atol=1e-10):
                problems.append(f"coaxial_index({label}, axis1={a1}, axis2={a2}) = {got:.4f}, defining formula gives {want:.4f}")
    if dg.coaxial_index(spin_b) != dg.coaxial_index(spin_b, axis1="b", axis2="a"):
        problems.append("coaxial_index default axes are not (b, a)")
    F = np.array([[1.3, 0.4, 0.1], [0.0, 0.8, 0.5], [0.2, -0.3, 1.1]])
    for Ft in (F, np.diag([1.1, 1.05, 0.3]), Q @ np.diag([0.9, 0.5, 0.4]) @ Q.T, np.diag([1.2, 1.2, 0.2]) @ Q, np.array([[1.0, 0.0, 0.0], [0.3, 0.6, 0.0], [0.0, 0.1, 0.5]])):
        s_, v_ = dg.finite_strain(Ft)
        w_, V_ = np.linalg.eigh(Ft @ Ft.T)
        if not (np.isclose(s_, np.sqrt(w_[-1]) - 1) and abs(abs(v_ @ V_[:, -1]) - 1) < 1e-9):
            problems.append("finite_strain is not the top eigenpair of F F^T (largest stretch - 1, long axis)")
    s, v = dg.finite_strain(F)
    s2, v2 = dg.finite_strain(F @ Q)
    s3, v3 = dg.finite_strain(Q @ F)
    if not (np.isclose(s2, s) and abs(abs(v2 @ v) - 1) < 1e-9 and np.isclose(s3, s) and abs(abs(v3 @ (Q @ v)) - 1) < 1e-9):
        problems.append("finite_strain: F -> F Q / F -> Q F behaviour")
    for eps in (0.3, 1.0, 2.5):
        Fs = np.eye(3)
        Fs[1, 0] = 2 * eps
        _, ax_ = dg.finite_strain(Fs)
        ang = np.deg2rad(utils.angle_fse_simpleshear(eps))
        if abs(abs(ax_ @ np.array([np.cos(ang), np.sin(ang), 0.0])) - 1) > 1e-8:
            problems.append("simple shear: finite-strain axis disagrees with angle_fse_simpleshear")
    return {"reproduced": bool(problems), "detail": sorted(set(problems))[:6] or "diagnostics objective on the replay inputs"}


def c14_triclinic(case):
    import pydrex
    from pydrex import geometry as geo
    from pydrex import stats
    from scipy.spatial.transform import Rotation

    problems = []
    sysm = geo.LatticeSystem.triclinic
    rng = np.random.default_rng(4)
    A = (Rotation.from_rotvec(rng.normal(size=(60, 3)) * [0.2, 0.2, 3.0])).as_matrix()
    m0 = pydrex.misorientation_index(A, sysm)
    if not -1e-3 <= m0 <= 1 + 1e-3:
        problems.append(f"triclinic M-index {m0} outside [0, 1]")
    for Q in Rotation.from_euler("zxz", [[0.7, 1.1, 0.4], [2.9, 2.0, 1.0], [3.0, 3.0, 3.0]]).as_matrix():
        m1 = pydrex.misorientation_index(A @ Q.T, sysm)
        if abs(m1 - m0) > 1e-9:
            problems.append(f"triclinic M-index changes under a frame rotation ({m0:.6f} -> {m1:.6f})")
    m2 = pydrex.misorientation_index(A[rng.permutation(len(A))], sysm)
    if abs(m2 - m0) > 1e-9:
        problems.append("triclinic M-index changes under reordering")
    q = Rotation.from_matrix(A).as_quat().astype(np.float64)
    ang = geo.misorientation_angles(q[:-1, None, :], -q[1:, None, :])
    ang2 = geo.misorientation_angles(q[:-1, None, :], q[1:, None, :])
    if ang.max() > 180 + 1e-6 or ang.min() < 0 or not np.allclose(ang, ang2, atol=1e-4):
        problems.append(f"misorientation angles depend on the quaternion sign or leave [0, 180] (max {ang.max():.1f})")
    single = np.repeat(A[:1], 20, axis=0)
    m3 = pydrex.misorientation_index(single, sysm)
    if m3 < 0.9:
        problems.append(f"single-orientation texture has M = {m3:.3f}")
    # pairs exactly at the maximum misorientation (mutual 180-degree twins): every pair must be counted
    tw = Rotation.from_rotvec([[0, 0, 0], [np.pi, 0, 0], [0, np.pi, 0], [0, 0, np.pi]]).as_matrix()
    for k in (2, 3, 4):
        mt = pydrex.misorientation_index(tw[:k], sysm)
        cnt, edges = stats.misorientation_hist(tw[:k], sysm)
        if not np.isfinite(mt) or not 0 <= mt <= 1 + 1e-3 or not np.isclose(np.sum(cnt * np.diff(edges)), 1.0):
            problems.append(f"{k} mutual twins (all pairs at 180 degrees): M = {mt}, histogram mass {np.sum(cnt * np.diff(edges))}")
    mixed = np.concatenate([np.repeat(tw[:1], 5, axis=0), np.repeat(tw[1:2], 5, axis=0)])
    cnt, edges = stats.misorientation_hist(mixed, sysm)
    if not np.isclose(cnt[-1] * (edges[-1] - edges[-2]), 25 / 45, atol=1e-9):
        problems.append(f"bimodal twin texture: the last bin holds {cnt[-1] * (edges[-1] - edges[-2]):.4f} of the pairs instead of 25/45")
    return {"reproduced": bool(problems), "detail": problems[:5] or "triclinic index invariant on the replay inputs"}


def c15_resample(case):
    """The RNG is replaced by a fixed grid of variates; every draw must be the grain whose cumulative-volume
    interval (ascending volume order) contains the variate."""
    from pydrex import stats

    us = np.array([0.0, 0.03, 0.2, 0.35, 0.5, 0.62, 0.8, 0.97, 0.999999])

    class G:
        def random(self, n):
            return np.resize(us, n)

    class RM:
        @staticmethod
        def default_rng(seed=None):
            return G()

    class NP:
        random = RM

        def __getattr__(self, k):
            return getattr(np, k)

    problems = []
    old = stats.np
    stats.np = NP()
    try:
        f = np.array([[0.4, 0.0, 0.1, 0.3, 0.2], [0.05, 0.5, 0.0, 0.15, 0.3]])
        A = np.arange(2 * 5 * 9, dtype=float).reshape(2, 5, 3, 3)
        oA, of = stats.resample_orientations(A, f, n_samples=len(us), seed=1)
        if oA.shape != (2, len(us), 3, 3) or of.shape != (2, len(us)):
            problems.append(f"output shapes {oA.shape} {of.shape}")
        for s in range(2):
            order = np.argsort(f[s], kind="stable")
            cum = np.cumsum(f[s][order])
            for j, u in enumerate(us):
                k = order[np.searchsorted(cum, u, side="right")]
                ok_pair = any(np.array_equal(oA[s, j], A[s, g]) and of[s, j] == f[s, g] for g in range(5))
                if not ok_pair:
                    problems.append(f"snapshot {s}: drawn (orientation, volume) pair is not an input grain")
                elif of[s, j] == 0:
                    problems.append(f"snapshot {s}: zero-volume grain drawn for u = {u}")
                elif not np.isclose(of[s, j], f[s, k]):
                    problems.append(f"snapshot {s}: u = {u} drew a grain of volume {of[s, j]} instead of {f[s, k]} (probability != volume)")
        oA2, of2 = stats.resample_orientations(A, f, seed=1)
        if oA2.shape != (2, 5, 3, 3):
            problems.append("default n_samples is not the grain count")
    finally:
        stats.np = old
    for sd in (0, 1, 12345):
        a = stats.resample_orientations(A, f, n_samples=50, seed=sd)
        b = stats.resample_orientations(A, f, n_samples=50, seed=sd)
        if not (np.array_equal(a[0], b[0]) and np.array_equal(a[1], b[1])):
            problems.append(f"seed {sd}: two calls with the same seed give different samples")
    # real generator, every relation of n_samples to the grain count (fewer, equal, more): the dominant grain must be
    # drawn with a frequency equal to its volume (fixed seeds, so the outcome is deterministic)
    f1 = np.array([[0.6, 0.2, 0.1, 0.1]])
    A1 = np.arange(4 * 9, dtype=float).reshape(1, 4, 3, 3)
    for ns in (1, 2, 3, 4, 9):
        hits = tot = 0
        for sd in range(1500):
            _, of = stats.resample_orientations(A1, f1, n_samples=ns, seed=sd)
            hits += int(np.sum(of == 0.6))
            tot += of.size
        if abs(hits / tot - 0.6) > 0.04:
            problems.append(f"n_samples = {ns} of 4 grains: the grain holding 0.6 of the volume is drawn with frequency {hits / tot:.3f}")
    return {"reproduced": bool(problems), "detail": sorted(set(problems))[:5] or "draws follow the cumulative volume intervals"}


def c18_flows(case):
    from pydrex import utils
    from pydrex import velocity as vel

    problems = []
    pts = [[0.3, -0.2, 0.45], [-0.6, 0.25, 0.1], [0.15, 0.55, -0.35], [0.0, 0.4, -0.3], [0.5, 0.0, 0.0], [0.0, 0.0, -0.7], [0.4, -0.6, 0.0]]
    for flow in ("simple_shear_2d", "cell_2d", "corner_2d"):
        for a, b in it.permutations("XYZ", 2):
            u, L = {"simple_shear_2d": lambda: vel.simple_shear_2d(a, b, 0.7), "cell_2d": lambda: vel.cell_2d(a, b, 1.3, 2.0),
                    "corner_2d": lambda: vel.corner_2d(a, b, 1.1)}[flow]()
            h, v = "XYZ".index(a), "XYZ".index(b)
            for x in pts:
                x = np.array(x)
                if flow == "corner_2d" and abs(x[h]) < 1e-9 and abs(x[v]) < 1e-9:
                    continue
                J = np.zeros((3, 3))
                e = 1e-6
                for k in range(3):
                    d = np.zeros(3)
                    d[k] = e
                    J[:, k] = (u(np.nan, x + d) - u(np.nan, x - d)) / (2 * e)
                Lx = L(np.nan, x)
                if not np.all(np.isfinite(Lx)):
                    problems.append(f"{flow}[{a}{b}]: gradient not finite at {x.tolist()}")
                    continue
                diff = np.abs(Lx - J)
                # recorded defects: simple shear entry [h, v] (factor 2); cell entries [v, v], [v, h] and the trace
                if flow == "simple_shear_2d":
                    diff[h, v] = 0 if np.isclose(Lx[h, v], 2 * J[h, v], atol=1e-5) else diff[h, v]
                if flow == "cell_2d":
                    diff[v, v] = 0 if np.isclose(Lx[v, v], J[v, h], atol=1e-5) else diff[v, v]
                    diff[v, h] = 0 if np.isclose(Lx[v, h], J[v, v], atol=1e-5) else diff[v, h]
                if diff.max() > 1e-5:
                    problems.append(f"{flow}[{a}{b}]: gradient differs from the Jacobian at {x.tolist()} by {diff.max():.2e} (beyond the recorded defects)")
                if flow != "cell_2d" and abs(np.trace(Lx)) > 1e-9:
                    problems.append(f"{flow}[{a}{b}]: trace {np.trace(Lx):.2e}")
    rng = np.random.default_rng(6)
    for _ in range(5):
        Lm = rng.normal(size=(3, 3))
        dt = rng.normal()
        want = abs(dt) * np.abs(np.linalg.eigvalsh((Lm + Lm.T) / 2)).max()
        if not np.isclose(utils.strain_increment(dt, Lm), want):
            problems.append("strain_increment != |dt| x largest |principal strain rate|")
    return {"reproduced": bool(problems), "detail": sorted(set(problems))[:6] or "flows consistent (up to the recorded defects)"}


def c20_geometry(case):
    from pydrex import geometry as geo
    from pydrex import stats
    from scipy.spatial.transform import Rotation

    problems = []
    rng = np.random.default_rng(8)
    pts = rng.normal(size=(40, 3))
    pts = np.vstack([pts, [[0, 0, 1.0], [0, 0, -2.0], [-1, -1, 0.5], [1, -1, -0.5]]])
    with np.errstate(all="ignore"):
        r, phi, theta = geo.to_spherical(pts[:, 0], pts[:, 1], pts[:, 2])
        back = np.column_stack(geo.to_cartesian(phi, theta, r))
    if not (np.allclose(back, pts, atol=1e-10) and np.allclose(np.cos(theta) * r, pts[:, 2], atol=1e-10)):
        problems.append("cartesian -> spherical -> cartesian is not the identity / wrong colatitude")
    A = Rotation.random(6, random_state=3).as_matrix()
    amap = {"x": 0, "y": 1, "z": 2}
    for ref in ("xy", "xz", "yx", "yz", "zx", "zy"):
        # crystal directions: every sign pattern of integer indices in {-2..2}^3 except 0 (axes, negative axes, multiples), and two float directions
        dirs = [list(v) for v in it.product((-2, -1, 0, 1, 2), repeat=3) if any(v)] + [[0.5, -0.25, 0.0], [-0.3, 0.0, 0.0]]
        for hkl in dirs:
            xv, yv, zv = geo.poles(A, ref_axes=ref, hkl=hkl)
            d = np.einsum("gij,i->gj", A, np.array(hkl, dtype=float))
            d /= np.linalg.norm(d, axis=1)[:, None]
            up = (set("xyz") - set(ref)).pop()
            if not (np.allclose(xv, d[:, amap[ref[0]]]) and np.allclose(yv, d[:, amap[ref[1]]]) and np.allclose(zv, d[:, amap[up]])):
                problems.append(f"poles(ref_axes='{ref}', hkl={hkl}): not the requested crystal direction in the external frame, permuted as specified")
    u = pts / np.linalg.norm(pts, axis=1)[:, None]
    X, Y = geo.lambert_equal_area(u[:, 0], u[:, 1], u[:, 2])
    far = np.hypot(u[:, 0], u[:, 1]) > 1e-12
    if not (np.allclose((X**2 + Y**2)[far], (1 - np.abs(u[:, 2]))[far], atol=1e-10) and np.allclose(X * u[:, 1], Y * u[:, 0], atol=1e-10)
            and np.all(X * u[:, 0] >= -1e-12) and np.allclose(X[~far], 0) and np.allclose(Y[~far], 0)):
        problems.append("lambert_equal_area: squared radius != 1 - |z| or azimuth changed")
    cl = np.array([0.2, 0.1, 0.97]) + 0.05 * rng.normal(size=(12, 3))
    cl /= np.linalg.norm(cl, axis=1)[:, None]
    one = np.array([[0.36, 0.48, 0.8]])
    many = np.random.default_rng(21).normal(size=(200, 3))
    many /= np.linalg.norm(many, axis=1)[:, None]
    # data sets x scalar weights (small weights make the raw grid mean negative) x axial / non-axial x grid sizes
    for (kernel, fn_), (dlabel, dat), w, axial, gs in it.product(stats.SPHERICAL_COUNTING_KERNELS.items(), (("clustered", cl), ("single datum", one), ("200 random", many)),
                                                           (1, 0.5, 3.0, 1e-3, 1 / 200), (True, False), (15, 8)):
        if gs == 8 and (w != 0.5 or dlabel != "clustered"):
            continue
        with np.errstate(all="ignore"):
            Xg, Yg, T = stats.point_density(dat[:, 0], dat[:, 1], dat[:, 2], gridsteps=gs, kernel=kernel, weights=w, axial=axial)
        rho, h = np.mgrid[-np.pi:np.pi:gs * 1j, -1:1:gs * 1j]
        xc, yc, zc = geo.to_cartesian(np.pi / 2 - rho.ravel(), np.pi / 2 - np.arcsin(h).ravel())
        tot = np.empty(len(xc))
        for i, c in enumerate(np.column_stack([xc, yc, zc])):
            pr = dat @ c
            dens, scale = fn_(np.abs(pr) if axial else pr, axial=axial)
            tot[i] = ((dens * w).sum() - 0.5) / scale
        if not np.all(np.isfinite(tot)) or abs(tot.mean()) < 1e-12:
            continue  # no grid node counts any datum / degenerate kernel scale: the normalisation the property speaks of does not exist (outside the claim)
        want = tot / tot.mean()
        want[want < 0] = 0
        if not np.allclose(T.ravel(), want, rtol=1e-9, atol=1e-12):
            problems.append(f"point_density[{kernel}, {dlabel}, weight {w:g}, axial={axial}]: not (raw estimate / grid mean) with negatives clipped afterwards (max diff {np.abs(T.ravel() - want).max():.2e})")
    # axial and non-axial data, few and many data: estimates finite, non-negative, grid mean 1 before clipping
    for kernel, axial, n in it.product(stats.SPHERICAL_COUNTING_KERNELS, (True, False), (3, 40, 100, 150)):
        if kernel == "schmidt_count" and n < 100:
            continue  # the 1 % counting circle can miss every grid node for so few data (raw grid mean 0: outside the claim)
        dn = np.random.default_rng(n).normal(size=(n, 3))
        dn /= np.linalg.norm(dn, axis=1)[:, None]
        with np.errstate(all="ignore"):
            Tn = stats.point_density(dn[:, 0], dn[:, 1], dn[:, 2], gridsteps=15, kernel=kernel, axial=axial)[2]
        if not (np.all(np.isfinite(Tn)) and Tn.min() >= 0):
            problems.append(f"point_density[{kernel}, axial={axial}, {n} data]: estimates not finite / negative")
        elif Tn.min() > 0 and not np.isclose(Tn.mean(), 1.0, atol=1e-9):
            problems.append(f"point_density[{kernel}, axial={axial}, {n} data]: grid mean {Tn.mean():.6f} although nothing was clipped")
    data = u[:25]
    for kernel in stats.SPHERICAL_COUNTING_KERNELS:
        Xg, Yg, T = stats.point_density(data[:, 0], data[:, 1], data[:, 2], gridsteps=21, kernel=kernel)
        p = rng.permutation(len(data))
        T2 = stats.point_density(data[p, 0], data[p, 1], data[p, 2], gridsteps=21, kernel=kernel)[2]
        sg = np.where(rng.random(len(data)) < 0.5, -1.0, 1.0)[:, None]
        T3 = stats.point_density(*(data * sg).T, gridsteps=21, kernel=kernel)[2]
        if not (np.all(np.isfinite(T)) and T.min() >= 0 and np.all(Xg**2 + Yg**2 <= 1 + 1e-9)):
            problems.append(f"point_density[{kernel}]: not finite / negative / grid outside the disk")
        if not (np.allclose(T2, T, atol=1e-9) and np.allclose(T3, T, atol=1e-9)):
            problems.append(f"point_density[{kernel}]: depends on data order or on the sign of axial data")
    return {"reproduced": bool(problems), "detail": sorted(set(problems))[:6] or "geometry primitives correct on the replay inputs"}



def c03_rates(case):
    """pydrex.core.derivatives on random textures with non-uniform volumes (zeros, one dominant grain), all fabrics."""
    from pydrex import core
    from scipy.spatial.transform import Rotation

    problems = []
    rng = np.random.default_rng(13)
    L = GENERAL_L / np.abs(np.linalg.eigvalsh((GENERAL_L + GENERAL_L.T) / 2)).max()
    D = (L + L.T) / 2
    n = 10
    vols = [np.full(n, 1 / n), rng.dirichlet(np.ones(n)), np.r_[0.0, 0.0, rng.dirichlet(np.ones(n - 2))], np.r_[0.91, np.full(n - 1, 0.01)]]
    flows = [(L, D), (np.diag([1.0, -0.5, -0.5]), np.diag([1.0, -0.5, -0.5]))]  # general flow; axial compression (aligned grains resolve no slip)
    # the spin of the deformation gradient is an input of the solver too (ignored by the dislocation-type regimes): zero and a general matrix
    spins = [np.zeros((3, 3)), np.array([[0.2, 0.9, -0.4], [-0.7, 0.1, 0.5], [0.3, -0.6, -0.3]])]
    for (ph, fb), rg, f, (L, D), spin in it.product([("olivine", "olivine_A"), ("olivine", "olivine_C"), ("olivine", "olivine_E"), ("enstatite", "enstatite_AB")], (4, 6), vols, flows, spins):
        A = np.concatenate([Rotation.random(n - 2, random_state=3).as_matrix(), np.eye(3)[None], np.diag([-1.0, 1.0, -1.0])[None]])
        args = (rg, getattr(core.MineralPhase, ph), getattr(core.MineralFabric, fb), n)

        def run(M=125.0, phi=1.0):
            return core.derivatives(*args, A.copy(), f.copy(), D, L, spin.copy(), 1.5, 3.5, 5.0, M, phi)

        try:
            dA, df = run()
        except Exception as e:  # noqa: BLE001
            problems.append(f"{fb}/regime {rg}: raised {type(e).__name__}")
            continue
        if not (np.all(np.isfinite(dA)) and np.all(np.isfinite(df))):
            problems.append(f"{fb}/regime {rg}: non-finite rates")
            continue
        sk = np.einsum("gij,gkj->gik", dA, A) + np.einsum("gij,gkj->gik", A, dA)
        if np.abs(sk).max() > 1e-10:
            problems.append(f"{fb}/regime {rg}: orientation rate is not A x skew spin")
        if abs(df.sum()) > 1e-10:
            problems.append(f"{fb}/regime {rg}: volume rates sum to {df.sum():.3e} for non-uniform volumes")
        if np.any(df[f == 0] != 0):
            problems.append(f"{fb}/regime {rg}: zero-volume grain has a non-zero rate")
        if not (np.allclose(run(M=250.0)[1], 2 * df, atol=1e-12) and np.allclose(run(phi=0.5)[1], 0.5 * df, atol=1e-12) and np.all(run(M=0.0)[1] == 0)):
            problems.append(f"{fb}/regime {rg}: volume rates not linear in mobility / phase fraction")
        # growth criterion: energies recovered from a uniform-volume run (df_i = phi M f_i (Emean - E_i))
        fu = np.full(n, 1 / n)
        dfu = core.derivatives(*args, A.copy(), fu, D, L, spin.copy(), 1.5, 3.5, 5.0, 125.0, 1.0)[1]
        damp = 0.3 if rg == 6 else 1.0
        rel = -dfu / (damp * 125.0 / n)  # E_i - mean(E)
        wmean = float(f @ rel)
        pos = f > 0
        if np.any((df[pos] > 1e-12) != (rel[pos] < wmean - 1e-15)) and np.abs(rel[pos] - wmean).min() > 1e-9:
            problems.append(f"{fb}/regime {rg}: a grain grows although its energy is not below the volume-weighted mean")
    return {"reproduced": bool(problems), "detail": sorted(set(problems))[:6] or "rates conserve the texture manifold on the replay inputs"}


def c19_config(case):
    """Generated TOML files: every subset of the optional [output] keys and several [parameters] subsets."""
    import os
    import tempfile

    import pydrex.io as pio
    from pydrex import core, exceptions

    d = tempfile.mkdtemp(prefix="c19_")
    with open(os.path.join(d, "start.scsv"), "w") as f:
        f.write("---\nschema:\n  delimiter: ','\n  missing: '-'\n  fields:\n    - name: X\n      type: float\n      fill: NaN\n    - name: Y\n      type: float\n      fill: NaN\n---\nX,Y\n1.0,2.0\n")
    problems = []
    P = core.MineralPhase
    outs = {"raw_output": ['["olivine"]', "[]", None], "diagnostics": ['["enstatite"]', '["olivine", "enstatite"]', None], "log_level": ['"DEBUG"', None]}
    cwd = os.getcwd()
    os.chdir(d)
    try:
        for asm in (None, ["olivine", "enstatite"], ["enstatite", "olivine"]):
            for ro, dg_, ll in it.product(*outs.values()):
                lines = ["[input]", 'velocity_gradient = ["simple_shear_2d", "Y", "X", 5e-6]', 'locations_initial = "start.scsv"', "timestep = 1e9", "[output]"]
                for k, v in (("raw_output", ro), ("diagnostics", dg_), ("log_level", ll)):
                    if v is not None:
                        lines.append(f"{k} = {v}")
                lines.append("[parameters]")
                if asm:
                    lines += ["phase_assemblage = [" + ", ".join(f'"{a}"' for a in asm) + "]", "phase_fractions = [0.7, 0.3]"]
                phases = tuple(getattr(P, a) for a in (asm or ["olivine"]))
                with open("c.toml", "w") as f:
                    f.write("\n".join(lines) + "\n")
                valid = all(getattr(P, x.strip(' "')) in phases for v in (ro, dg_) if v for x in v.strip("[]").split(",") if x.strip())
                try:
                    cfg = pio.parse_config("c.toml")
                except exceptions.ConfigError:
                    if valid:
                        problems.append(f"valid configuration rejected (assemblage {asm}, raw_output {ro}, diagnostics {dg_})")
                    continue
                except Exception as e:  # noqa: BLE001
                    problems.append(f"{type(e).__name__} instead of a default / ConfigError (raw_output {ro}, diagnostics {dg_})")
                    continue
                if not valid:
                    problems.append(f"invalid output phases accepted (assemblage {asm}, raw_output {ro}, diagnostics {dg_})")
                    continue
                o = cfg["output"]
                if ro is None and tuple(o["raw_output"]) != phases:
                    problems.append(f"raw_output default {o['raw_output']} != simulated phases")
                if dg_ is None and tuple(o["diagnostics"]) != phases:
                    problems.append(f"diagnostics default {o['diagnostics']} != simulated phases {phases} (raw_output {ro})")
                if ll is None and o["log_level"] != "WARNING":
                    problems.append("log_level default is not WARNING")
                pr = cfg["parameters"]
                if len(pr["phase_assemblage"]) != len(pr["phase_fractions"]) or abs(sum(pr["phase_fractions"]) - 1) > 1e-16:
                    problems.append("parsed phase lists inconsistent")
        # single-fault configurations must raise ConfigError
        for extra in ('phase_fractions = [0.7, 0.31]', 'phase_fractions = [1.0]', 'phase_assemblage = ["olivine", "pyroxene"]', 'initial_olivine_fabric = "Z"',
                      'phase_fractions = [0.5, 0.25, 0.25]', 'phase_assemblage = ["olivine"]', 'phase_assemblage = [0, 7]', 'phase_fractions = [0.7, 0.3, 0.0]',
                      'phase_fractions = [0.7, 0.2]', 'phase_fractions = [0.5, 0.0]', 'phase_fractions = [0.7, 0.29999]', 'phase_fractions = [-0.5, 1.4]',
                      'phase_fractions = [nan, 0.5]', 'phase_fractions = [inf, -inf]', 'initial_olivine_fabric = 1', 'initial_olivine_fabric = "a"'):
            lines = ["[input]", 'velocity_gradient = ["simple_shear_2d", "Y", "X", 5e-6]', 'locations_initial = "start.scsv"', "timestep = 1e9", "[parameters]"]
            if "assemblage" not in extra:
                lines.append('phase_assemblage = ["olivine", "enstatite"]')
            if "fractions" not in extra:
                lines.append("phase_fractions = [0.7, 0.3]")
            lines.append(extra)
            with open("c.toml", "w") as f:
                f.write("\n".join(lines) + "\n")
            try:
                pio.parse_config("c.toml")
                problems.append(f"invalid configuration accepted: {extra}")
            except exceptions.ConfigError:
                pass
            except Exception as e:  # noqa: BLE001
                problems.append(f"{type(e).__name__} instead of ConfigError for: {extra}")
    finally:
        os.chdir(cwd)
    return {"reproduced": bool(problems), "detail": sorted(set(problems))[:6] or "configurations parse with documented defaults"}



def c09_apply_gbs(case):
    """pydrex.utils.apply_gbs on concrete inputs with exact ties, zeros, several grains below the threshold."""
    from pydrex import utils

    problems = []
    rng = np.random.default_rng(21)
    for chi, f in ((0.5, [0.125, 0.125, 0.25, 0.5]), (0.5, [0.05, 0.125, 0.325, 0.5]), (0.0, [0.0, 0.0, 0.5, 0.5]), (0.8, [0.1, 0.15, 0.25, 0.5]), (0.4, [0.25] * 4)):
        f = np.array(f)
        n = len(f)
        cur, prev = rng.normal(size=(n, 3, 3)), rng.normal(size=(n, 3, 3))
        o, g = utils.apply_gbs(cur.copy(), f.copy(), chi, prev.copy(), n)
        thr = chi / n
        mask = f < thr
        want_o = np.where(mask[:, None, None], prev, cur)
        floored = np.where(mask, thr, f)
        want_f = floored / floored.sum()
        if not np.array_equal(o, want_o):
            problems.append(f"chi={chi}, f={f.tolist()}: wrong grains frozen (ties at the threshold / zero volumes must keep their own orientation)")
        if not np.allclose(g, want_f, rtol=0, atol=1e-15):
            problems.append(f"chi={chi}, f={f.tolist()}: volumes {g.tolist()} != floor-then-renormalise {want_f.tolist()}")
        if abs(g.sum() - 1) > 1e-12 or g.min() < chi / (n * (1 + chi)) - 1e-15 or np.any(np.diff(g[np.argsort(f, kind='stable')]) < -1e-15):
            problems.append(f"chi={chi}, f={f.tolist()}: sum / lower bound / ordering violated")
    return {"reproduced": bool(problems), "detail": problems[:5] or "apply_gbs floors and freezes exactly the grains below chi/n"}
