"""C02 -- solver rates equal the published D-Rex equations for every fabric and input.

Compositional: each real helper of the grain kernel is executed on free symbolic arguments and
compared with the reference model (vf/ref/drex.py, written from the cited papers); the real
`_get_rotation_and_strain` is then executed with its callees replaced by recording stubs to decide
that it wires the stages together as the model prescribes (for every activity order = path); the
real `derivatives` adds the boundary-migration law and the yielding damping factor.
"""

from __future__ import annotations

import itertools as it

import numpy as np
import z3

from .. import quat, solve, sym
from ..ref import drex as ref
from ..sarr import SArr, patched, sarr
from ..sym import R, real
from . import kernel
from .common import all_eq, eq, main_path, np_installed, pydrex_modules, sample, only_path

TIMEOUT_MS = {"quick": 60000, "thorough": 300000}
INF = float("inf")


def tasks(tier):
    t = [("t_crss", {}), ("t_invariants", {}), ("t_schmid", {}), ("t_softest", {}), ("t_spin", {})]
    t += [("t_slip_rates", {"fabric": fb}) for ph, fb in kernel.FABRICS if ph == "olivine"]
    t += [("t_energy", {"phase": ph, "fabric": fb}) for ph, fb in kernel.FABRICS]
    t += [("t_glue", {"phase": ph, "fabric": fb}) for ph, fb in kernel.FABRICS]
    t += [("t_derivatives", {"regime": rg, "n_grains": n}) for rg in ("matrix_dislocation", "frictional_yielding") for n in ((2,) if tier == "quick" else (1, 3, 5))]
    t += [("t_jit_vs_source", {"n": 40 if tier == "quick" else 400})]
    return t


def _lists(a):
    return [[a[i, j] for j in range(3)] for i in range(3)]


def t_crss(sess):
    core = pydrex_modules()["core"]
    P, F, _ = kernel.enums()
    sess.encode(core.get_crss)
    mods = pydrex_modules()
    docs = tuple((tuple(n).index(1), tuple(l).index(1)) for n, l in mods["minerals"].OLIVINE_SLIP_SYSTEMS)
    sess.prove("documented slip-system order is (010)[100], (001)[100], (010)[001], (100)[001]", [], z3.BoolVal(docs == ref.SLIP_SYSTEMS))
    for (ph, fb), row in ref.CRSS.items():
        def fn():
            return core.get_crss(getattr(P, ph), getattr(F, fb))

        with np_installed(core):
            paths, _ = sym.explore(fn)
        got = [R(x).v for x in paths[0].value]
        sess.prove(f"CRSS row of {fb} = {row}", [], z3.BoolVal(got == [sym.to_fraction(x) for x in row]))
    sess.satisfiable("crss: reach", [])


def t_invariants(sess):
    core = pydrex_modules()["core"]
    sess.encode(core._get_slip_invariants)

    def fn():
        D, A = quat.symmat("D"), quat.symmat("A")
        return D, A, core._get_slip_invariants(D, A)

    with np_installed(core):
        paths, _ = sym.explore(fn)
    p = only_path(sess, paths)
    D, A, I = p.value
    sess.satisfiable("invariants: reach", p.pc)
    sess.prove("slip invariants I_s = l_s.D.n_s for the four documented systems (all 3x3 D, A)", p.pc, all_eq(I, ref.invariants(_lists(D), _lists(A))))
    sample(sess, obligation="invariants", I0=str(I[0])[:200])


def t_schmid(sess):
    core = pydrex_modules()["core"]
    P, F, _ = kernel.enums()
    sess.encode(core._get_deformation_rate)
    for ph in (P.olivine, P.enstatite):
        def fn():
            A, g = quat.symmat("A"), quat.symvec("gs", 4)
            return A, g, core._get_deformation_rate(ph, A, g)

        with np_installed(core):
            paths, _ = sym.explore(fn)
        p = only_path(sess, paths)
        A, g, G = p.value
        sess.prove(f"Schmid tensor G_ij = 2 sum_s gamma_s l_i n_j ({ph.name})", p.pc, all_eq(G, np.array(ref.schmid(_lists(A), list(g)), dtype=object)))
    sess.satisfiable("schmid: reach", p.pc)


def t_softest(sess):
    core = pydrex_modules()["core"]
    sess.encode(core._get_slip_rate_softest)

    def fn():
        G, L = quat.symmat("G"), quat.symmat("L")
        return G, L, core._get_slip_rate_softest(G, L)

    with np_installed(core):
        paths, info = sym.explore(fn)
    sess.paths["softest"] = {"paths": len(paths)}
    eps = R(1e-15)
    for k, p in enumerate(paths):
        G, L, g0 = p.value
        Gl, Ll = _lists(G), _lists(L)
        den = 2 * ref.sym_inner(Gl, Gl)
        num = 2 * ref.sym_inner(Gl, Ll)
        guard = z3.And((den > -eps).z3(), (den < eps).z3())
        for ob in p.obligations:
            sess.prove(f"softest path {k}: {ob.kind} cannot happen", ob.pc, ob.cond)
        sess.satisfiable(f"softest path {k}: reach", p.pc)
        # least-squares optimality <sym G, sym L - g0 sym G> = 0 outside the 1e-15 guard, 0 inside
        sess.prove(f"softest path {k}: gamma0 is the least-squares fit (2<symG,symG> gamma0 = 2<symG,symL>) or 0 inside the 1e-15 guard", p.pc,
                   z3.If(guard, eq(g0, 0), eq(R(g0) * den, num)))
    sample(sess, obligation="softest slip rate", paths=len(paths))


def t_spin(sess):
    core = pydrex_modules()["core"]
    sess.encode(core._get_orientation_change)

    def fn():
        A, L, G, g0 = quat.symmat("A"), quat.symmat("L"), quat.symmat("G"), real("g0")
        return A, L, G, g0, core._get_orientation_change(A, L, G, g0)

    with np_installed(core):
        paths, _ = sym.explore(fn)
    p = only_path(sess, paths)
    A, L, G, g0, dA = p.value
    sess.satisfiable("spin: reach", p.pc)
    sess.prove("orientation rate dA = -A.W', W' = antisymmetric part of (L - gamma0 G)", p.pc,
               all_eq(dA, np.array(ref.spin_rate(_lists(A), _lists(L), _lists(G), g0), dtype=object)))


def _tau(fabric, phase="olivine"):
    return ref.CRSS[(phase, fabric)]


def t_slip_rates(sess, fabric):
    """Real _get_slip_rates_olivine for every activity order (24 permutations), free invariants."""
    core = pydrex_modules()["core"]
    sess.encode(core._get_slip_rates_olivine)
    tau = _tau(fabric)
    n_ok = 0
    for perm in it.permutations(range(4)):
        i_inac, i_min, i_int, i_max = perm
        if tau[i_max] == INF:
            continue  # the inactive (infinite-CRSS) system has activity 0: it is the most active one only when nothing slips (C03)

        def fn():
            I = quat.symvec("I", 4)
            n = real("n")
            c = sym.ctx()
            c.assume(z3.And((n >= 2).z3(), (n <= 5).z3()))
            c.assume((I[i_max] != 0).z3())
            crss = sarr(np.array(tau, dtype=float))
            g = core._get_slip_rates_olivine(I, np.array(perm), crss, n)
            # reference (Kaminski & Ribe 2001 eq 5), built in the same context so that the power
            # applications share the Ackermannised congruence axioms
            want = {}
            for s in (i_min, i_int):
                if tau[s] != INF:
                    r = (I[s] / tau[s]) / (I[i_max] / tau[i_max])
                    want[s] = r * abs(r) ** (n - 1)
            return I, n, g, want

        with np_installed(core):
            paths, _ = sym.explore(fn)
        p = main_path(sess, paths, "slip rates")
        if p is None:
            continue
        I, n, g, want = p.value
        for ob in p.obligations:
            sess.prove(f"slip rates[{fabric}] order {perm}: {ob.kind} cannot happen", ob.pc, ob.cond)
        claims = [eq(g[i_inac], 0), eq(g[i_max], 1)]
        for s in (i_min, i_int):
            if tau[s] == INF:
                claims.append(eq(g[s], 0))
                continue
            claims.append(eq(g[s], want[s]))
        q = sess.prove(f"slip rates[{fabric}] order {perm}: gamma_s = r |r|^(n-1), r = (I_s/tau_s)/(I_max/tau_max); least active 0; most active 1", p.pc, z3.And(*claims))
        n_ok += 1
    sess.satisfiable(f"slip rates[{fabric}]: reach", p.pc)
    sess.paths[f"slip_rates[{fabric}]"] = {"orders": n_ok}


def t_energy(sess, phase, fabric):
    core = pydrex_modules()["core"]
    sess.encode(core._get_strain_energy)
    tau = _tau(fabric, phase)

    def fn():
        g = quat.symvec("gs", 4)
        g0 = real("g0")
        p, n, lam, _ = kernel.param_symbols()
        c = sym.ctx()
        # slip rates of infinite-CRSS systems are 0 (shown by t_slip_rates / the enstatite branch)
        for s in range(4):
            if tau[s] == INF:
                c.assume((g[s] == 0).z3())
        crss = sarr(np.array(tau, dtype=float))
        E = core._get_strain_energy(crss, g, np.array([0, 1, 2, 3]), g0, p, n, lam)
        want = R(0)
        for s in range(4):
            if tau[s] == INF:
                continue
            rho = (R(1) / tau[s]) ** (n - p) * abs(g[s] * g0) ** (p / n)
            want = want + rho * (-lam * rho**2).exp()
        return g, g0, E, want

    with np_installed(core):
        paths, _ = sym.explore(fn)
    p = main_path(sess, paths, "strain energy")
    if p is None:
        return
    g, g0, E, want = p.value
    for ob in p.obligations:
        sess.prove(f"energy[{fabric}]: {ob.kind} cannot happen at `{(ob.site or ('', '?'))[1]}`", ob.pc, ob.cond)
    sess.satisfiable(f"energy[{fabric}]: reach", p.pc)
    name = f"energy[{fabric}]: E = sum over the active slip systems of rho_s exp(-lambda rho_s^2), rho_s = tau_s^(p-n) |gamma_s gamma0|^(p/n)"
    q = sess.prove(name, p.pc, eq(E, want))
    if not q.holds:
        sess.cex.append({"name": name, "replay": "vf.props.C02:replay_energy", "case": {"phase": phase, "fabric": fabric},
                         "cls": {"kind": "strain energy skips an active slip system", "fabric": fabric}})
    sample(sess, obligation="strain energy", fabric=fabric, E=str(E)[:240])


def replay_energy(case):
    """Public API: two grains with different resolved shear; compare compiled volume rates with the
    reference model."""
    import numpy as np
    from pydrex import core
    from scipy.spatial.transform import Rotation

    ph, fb = case["phase"], case["fabric"]
    A = Rotation.from_euler("zxz", [[0.3, 0.4, 0.5], [1.1, 0.7, 0.2], [2.0, 1.0, 0.9]]).as_matrix()
    L = np.array([[0.0, 0.0, 2.0], [0.0, 0.0, 0.0], [0.0, 0.0, 0.0]])
    D = (L + L.T) / 2
    f = np.array([0.5, 0.3, 0.2])
    p, n, lam, M = 1.5, 3.5, 5.0, 125.0
    dA, df = core.derivatives(core.DeformationRegime.matrix_dislocation, getattr(core.MineralPhase, ph), getattr(core.MineralFabric, fb),
                              3, A.copy(), f.copy(), D, L, np.zeros((3, 3)), p, n, lam, M, 1.0)
    E = [ref.float_kernel(ph, fb, A[i].tolist(), D.tolist(), L.tolist(), p, n, lam)[1] for i in range(3)]
    Em = float(np.dot(f, E))
    want = M * f * (Em - np.array(E))
    bad = not np.allclose(df, want, rtol=1e-9, atol=1e-12)
    return {"reproduced": bool(bad), "detail": {"compiled_df": np.asarray(df).tolist(), "reference_df": want.tolist(), "reference_E": E}}


def t_glue(sess, phase, fabric):
    """Real _get_rotation_and_strain with every callee replaced by a recording stub returning fresh
    symbols: the stages are wired as the model prescribes, for every activity order."""
    core = pydrex_modules()["core"]
    P, F, _ = kernel.enums()
    sess.encode(core._get_rotation_and_strain)
    tau = _tau(fabric, phase)
    rec = {}

    def s_inv(strain_rate, orientation):
        rec["inv"] = (strain_rate, orientation)
        return quat.symvec("I", 4)

    def s_rates(invariants, slip_indices, crss, n):
        rec["rates"] = (invariants, np.array(slip_indices), crss, n)
        return quat.symvec("gs", 4)

    def s_def(phase_, orientation, slip_rates):
        rec["def"] = (phase_, orientation, slip_rates)
        return quat.symmat("G")

    def s_soft(G, L):
        rec["soft"] = (G, L)
        return real("g0")

    def s_spin(orientation, L, G, g0):
        rec["spin"] = (orientation, L, G, g0)
        return quat.symmat("dA")

    def s_energy(crss, slip_rates, slip_indices, g0, p, n, lam):
        rec["energy"] = (crss, slip_rates, np.array(slip_indices), g0, p, n, lam)
        return real("E")

    def fn():
        rec.clear()
        A, L, D = quat.symmat("A"), quat.symmat("L"), quat.symmat("D")
        p, n, lam, _ = kernel.param_symbols()
        out = core._get_rotation_and_strain(getattr(P, phase), getattr(F, fabric), A, D, L, p, n, lam)
        return dict(rec), A, L, D, p, n, lam, out

    stubs_ = [(core, "_get_slip_invariants", s_inv), (core, "_get_slip_rates_olivine", s_rates), (core, "_get_deformation_rate", s_def),
              (core, "_get_slip_rate_softest", s_soft), (core, "_get_orientation_change", s_spin), (core, "_get_strain_energy", s_energy)]
    with np_installed(core), patched(*stubs_):
        paths, info = sym.explore(fn, max_paths=400)
    sess.paths[f"glue[{fabric}]"] = {"paths": len(paths), "runs": info["runs"], "pruned": info["infeasible"]}
    if info["truncated"]:
        sess.truncated = True
    I = quat.symvec("I", 4)
    taus = [sym.to_fraction(t) for t in tau]
    reached = 0
    for k, p in enumerate(paths):
        pt = f"glue[{fabric}] path {k}"
        if p.exc is not None:
            sess.prove(f"{pt}: raises {type(p.exc).__name__}: {str(p.exc)[:80]}", p.pc, z3.BoolVal(False))
            continue
        r, A, L, D, pp, nn, lam, (dA, E) = p.value
        for ob in p.obligations:
            sess.prove(f"{pt}: {ob.kind} cannot happen at `{(ob.site or ('', '?'))[1]}`", ob.pc, ob.cond)
        sess.prove(f"{pt}: invariants computed from (strain rate, this grain's orientation)", p.pc, z3.And(all_eq(r["inv"][0], D), all_eq(r["inv"][1], A)))
        allzero = z3.And(*[eq(x, 0) for x in I])
        if "def" not in r:
            # early return: no slip can be resolved
            nothing = allzero if phase != "olivine" else z3.Or(allzero, *[
                z3.And(*[(abs(I[s] / tau[s]) <= abs(I[m] / tau[m])).z3() for s in range(4)], eq(I[m], 0)) for m in range(4)])
            sess.prove(f"{pt}: early (0, 0) return only when no slip can be resolved (all invariants 0, or the most active system has I = 0)", p.pc, nothing)
            sess.prove(f"{pt}: early return value is (zeros, 0)", p.pc, z3.And(all_eq(dA, sarr(np.zeros((3, 3)))), eq(E, 0)))
            continue
        if reached < 1:
            reached += sess.satisfiable(f"{pt}: reach", p.pc).verdict == "sat"
        if phase == "olivine":
            inv, idx, crss, n_arg = r["rates"]
            act = [abs(I[s] / tau[s]) for s in range(4)]
            order = z3.And(*[(act[int(idx[i])] <= act[int(idx[i + 1])]).z3() for i in range(3)])
            sess.prove(f"{pt}: slip systems ranked by activity |I_s/tau_s| (order {idx.tolist()})", p.pc,
                       z3.And(order, z3.BoolVal(sorted(idx.tolist()) == [0, 1, 2, 3])))
            sess.prove(f"{pt}: slip-rate routine receives the invariants, this fabric's CRSS row and n", p.pc,
                       z3.And(all_eq(inv, I), z3.BoolVal([R(x).v for x in crss] == taus), eq(n_arg, nn)))
            gam = quat.symvec("gs", 4)
            sess.prove(f"{pt}: Schmid tensor built from this grain's orientation and those slip rates", p.pc,
                       z3.And(all_eq(r["def"][1], A), all_eq(r["def"][2], gam)))
            idx_e = r["energy"][2]
            sess.prove(f"{pt}: strain energy receives the same activity order", p.pc, z3.BoolVal(idx_e.tolist() == idx.tolist()))
        else:
            gam = r["def"][2]
            one = (abs(I[3]) > R(1e-15))
            want = [R(0), R(0), R(0), sym.ite(one, R(1), R(0))]
            sess.prove(f"{pt}: enstatite slips only on (100)[001], rate 1 when |I_4| > 1e-15", p.pc, z3.And(all_eq(gam, want), all_eq(r["def"][1], A)))
        G, g0 = quat.symmat("G"), real("g0")
        sess.prove(f"{pt}: softest-system rate fitted to (G, this velocity gradient)", p.pc, z3.And(all_eq(r["soft"][0], G), all_eq(r["soft"][1], L)))
        sess.prove(f"{pt}: spin from (this orientation, L, G, gamma0)", p.pc,
                   z3.And(all_eq(r["spin"][0], A), all_eq(r["spin"][1], L), all_eq(r["spin"][2], G), eq(r["spin"][3], g0)))
        e = r["energy"]
        sess.prove(f"{pt}: energy from (CRSS row, slip rates, gamma0, p, n, lambda)", p.pc,
                   z3.And(z3.BoolVal([R(x).v for x in e[0]] == taus), all_eq(e[1], r["def"][2]), eq(e[3], g0), eq(e[4], pp), eq(e[5], nn), eq(e[6], lam)))
        sess.prove(f"{pt}: returns (spin routine result, energy routine result)", p.pc, z3.And(all_eq(dA, quat.symmat("dA")), eq(E, real("E"))))
    if not reached:
        sess.reach.append(type("Q", (), {"name": f"glue[{fabric}]: reach", "verdict": "unknown", "secs": 0.0})())
    sample(sess, obligation="kernel wiring", fabric=fabric, paths=len(paths))


def t_derivatives(sess, regime, n_grains):
    from . import C03

    C03.t_aggregate(sess, regime, n_grains)


def t_jit_vs_source(sess, n):
    """Not a solver statement (numba's LLVM output is out of reach): sampled agreement of the compiled
    solver, the interpreted source and the float reference on random + axis-aligned inputs."""
    from .. import framework

    res = framework.replay_cases([{"replay": "vf.props.C02:validate_jit", "case": {"n": n, "seed": solve.SEED}}])[0]
    sess.notes.append(f"JIT vs interpreted source vs reference (sampled, not decided): {res.get('detail')}")
    sess.outside_claim("JIT-compiled solver == interpreted source: observed by sampling only (reported in notes), not decided by the solver")
    ok = res.get("reproduced") is False
    q = sess.prove("sampled: compiled derivatives, interpreted derivatives and float reference agree to 1e-9", [], z3.BoolVal(ok), tags={"sampled": True})
    if not ok:
        sess.cex.append({"name": q.name, "replay": "vf.props.C02:validate_jit", "case": {"n": n, "seed": solve.SEED},
                         "cls": {"kind": "compiled/interpreted/reference disagreement", "detail": str(res.get("detail"))[:200]}})
    sess.satisfiable("jit: reach", [])


def validate_jit(case):
    import json
    import os
    import subprocess
    import sys

    import numpy as np
    from pydrex import core
    from scipy.spatial.transform import Rotation

    rng = np.random.default_rng(case["seed"])
    inputs = []
    fabs = list(ref.CRSS)
    for i in range(case["n"]):
        ph, fb = fabs[i % len(fabs)]
        if i % 5 == 0:
            A = Rotation.from_euler("zxz", rng.integers(0, 4, 3) * np.pi / 2).as_matrix().round()
        else:
            A = Rotation.random(random_state=int(rng.integers(1 << 30))).as_matrix()
        L = rng.normal(size=(3, 3))
        D = (L + L.T) / 2
        s = np.abs(np.linalg.eigvalsh(D)).max()
        L, D = L / s, D / s
        inputs.append(dict(ph=ph, fb=fb, A=A.tolist(), L=L.tolist(), p=float(rng.uniform(1, 2)), n=float(rng.uniform(2, 5)),
                           lam=float(rng.uniform(0, 10)), regime=int(rng.choice([4, 6]))))
    code = r"""
import json, sys, numpy as np
from pydrex import core
out = []
for c in json.load(sys.stdin):
    A = np.array(c["A"]).reshape(1, 3, 3); L = np.array(c["L"]); D = (L + L.T) / 2
    try:
        dA, df = core.derivatives(c["regime"], getattr(core.MineralPhase, c["ph"]), getattr(core.MineralFabric, c["fb"]), 1, A, np.array([1.0]), D, L, np.zeros((3, 3)), c["p"], c["n"], c["lam"], 125.0, 1.0)
        out.append(np.asarray(dA).ravel().tolist())
    except Exception as e:
        out.append(str(type(e).__name__))
print("OUT " + json.dumps(out))
"""
    outs = {}
    for mode in ("jit", "nojit"):
        env = dict(os.environ)
        if mode == "nojit":
            env["NUMBA_DISABLE_JIT"] = "1"
        else:
            env.pop("NUMBA_DISABLE_JIT", None)
        p = subprocess.run([sys.executable, "-c", code], input=json.dumps(inputs), capture_output=True, text=True, env=env, timeout=1800)
        line = [l for l in p.stdout.splitlines() if l.startswith("OUT ")]
        if not line:
            return {"reproduced": None, "detail": "subprocess failed: " + p.stderr[-500:]}
        outs[mode] = json.loads(line[-1][4:])
    bad = []
    for i, c in enumerate(inputs):
        A, L = c["A"], c["L"]
        D = ((np.array(L) + np.array(L).T) / 2).tolist()
        dA, E = ref.float_kernel(c["ph"], c["fb"], A, D, L, c["p"], c["n"], c["lam"])
        want = (np.array(dA) * (0.3 if c["regime"] == 6 else 1.0)).ravel()
        for mode in ("jit", "nojit"):
            got = outs[mode][i]
            if isinstance(got, str) or not np.allclose(got, want, rtol=1e-9, atol=1e-9):
                bad.append((i, mode, c["fb"], got if isinstance(got, str) else float(np.abs(np.array(got) - want).max())))
    return {"reproduced": bool(bad), "detail": {"samples": len(inputs), "mismatches": bad[:5]}}


def default_cex(name):
    return {"replay": "vf.props.C02:replay_reference", "case": {}, "cls": {"kind": "rates differ from the D-Rex reference model"}}


def replay_reference(case):
    """Compiled pydrex.core.derivatives (rotation AND volume rates, both regimes, all fabrics) against the float
    reference model on random 3-D textures with non-uniform volumes."""
    import numpy as np
    from pydrex import core
    from scipy.spatial.transform import Rotation

    rng = np.random.default_rng(17)
    problems = []
    # volume vectors: interior of the simplex, a face (exact zeros), a vertex, one dominant grain
    for (ph, fb), rg, vol in it.product(ref.CRSS, (4, 6), ("interior", "face", "vertex", "dominant")):
        n = 8
        A = Rotation.random(n, random_state=int(rng.integers(1 << 30))).as_matrix()
        f = rng.dirichlet(np.ones(n))
        if vol == "face":
            f[[1, 4, 5]] = 0.0
            f /= f.sum()
        elif vol == "vertex":
            f = np.zeros(n)
            f[2] = 1.0
        elif vol == "dominant":
            f = np.r_[0.93, np.full(n - 1, 0.01)]
        L = rng.normal(size=(3, 3))
        L /= np.abs(np.linalg.eigvalsh((L + L.T) / 2)).max()
        D = (L + L.T) / 2
        p_, n_, lam, M, phi = 1.4, 3.2, 4.0, 90.0, 0.6
        dA, df = core.derivatives(rg, getattr(core.MineralPhase, ph), getattr(core.MineralFabric, fb), n, A.copy(), f.copy(), D, L, np.zeros((3, 3)), p_, n_, lam, M, phi)
        damp = 0.3 if rg == 6 else 1.0
        want_dA, E = [], []
        for g in range(n):
            a, e = ref.float_kernel(ph, fb, A[g].tolist(), D.tolist(), L.tolist(), p_, n_, lam)
            want_dA.append(np.array(a) * damp)
            E.append(e)
        E = np.array(E)
        want_df = damp * phi * M * f * (f @ E - E)
        if not np.allclose(dA, np.array(want_dA), rtol=1e-9, atol=1e-10):
            problems.append(f"{fb}/regime {rg}/{vol} volumes: rotation rates differ from the reference by {np.abs(dA - np.array(want_dA)).max():.2e}")
        if not np.allclose(df, want_df, rtol=1e-9, atol=1e-10):
            problems.append(f"{fb}/regime {rg}/{vol} volumes: volume rates differ from the reference (max ratio {np.nanmax(np.abs(df / np.where(want_df == 0, np.nan, want_df))):.3f})")
    return {"reproduced": bool(problems), "detail": problems[:6] or "rates equal the reference model"}
