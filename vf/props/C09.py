"""C09 -- grain-boundary sliding: small grains are floored and do not rotate."""

from __future__ import annotations

import numpy as np
import z3

from .. import quat, stubs, sym
from ..sarr import SArr, patched, sarr
from ..sym import R, ite, real
from . import mineral_h as mh
from .common import all_eq, eq, main_path, np_installed, pydrex_modules, sample, only_path

TIMEOUT_MS = {"quick": 60000, "thorough": 300000}


def tasks(tier):
    ns = [2, 3] if tier == "quick" else [2, 3, 4, 5]
    t = [("t_apply_gbs", {"n_grains": n}) for n in ns]
    t += [("t_call_site", {"n_grains": 2, "steps": 2, "regime": rg}) for rg in ("matrix_dislocation", "frictional_yielding", "matrix_diffusion", "min_viscosity", "max_viscosity")]
    if tier == "thorough":
        t += [("t_call_site", {"n_grains": 3, "steps": 3})]
    return t


def t_apply_gbs(sess, n_grains):
    utils = pydrex_modules()["utils"]
    sess.encode(utils.apply_gbs)
    N = n_grains
    sess.bounds[f"apply_gbs[N={N}]"] = "chi in [0,1), f_i >= 0, sum f = 1, arbitrary current and previous orientations; ties at the threshold included"

    def fn():
        cur, f = mh.sym_snapshot("c", N)
        prev, _ = mh.sym_snapshot("p", N)
        chi = real("chi")
        c = sym.ctx()
        c.assume(z3.And((chi >= 0).z3(), (chi < 1).z3()))
        tot = R(0)
        for x in f.flat:
            c.assume((x >= 0).z3())
            tot = tot + x
        c.assume((tot == 1).z3())
        cur0, f0, prev0 = cur.view(np.ndarray).copy(), f.view(np.ndarray).copy(), prev.view(np.ndarray).copy()
        o, fr = utils.apply_gbs(cur, f, chi, prev, N)
        return cur0, f0, prev0, chi, o, fr, prev

    with np_installed(utils):
        paths, info = sym.explore(fn)
    p = main_path(sess, paths, "apply_gbs")
    if p is None:
        return
    cur0, f0, prev0, chi, o, fr, prev_after = p.value
    pc = p.pc
    tag = f"apply_gbs[N={N}]"
    for ob in p.obligations:
        sess.prove(f"{tag}: {ob.kind} cannot happen at `{(ob.site or ('', '?'))[1]}`", ob.pc, ob.cond)
    thr = chi / N
    mask = [(R(f0[i]) < thr) for i in range(N)]
    g = [ite(mask[i], thr, f0[i]) for i in range(N)]
    G = sum(g, R(0))
    sess.satisfiable(f"{tag}: reach (one grain below, one above threshold)", pc + [mask[0].z3(), z3.Not(mask[1].z3())])
    # orientations: masked grains get exactly the previous orientation, others keep theirs
    want = np.empty((N, 3, 3), dtype=object)
    for i in range(N):
        for j in np.ndindex(3, 3):
            want[(i,) + j] = ite(mask[i], prev0[(i,) + j], cur0[(i,) + j])
    sess.prove(f"{tag}: grain below chi/N ends with exactly its reference orientation, every other keeps its own", pc, all_eq(o, want))
    sess.prove(f"{tag}: reference orientations are not modified", pc, all_eq(prev_after, prev0))
    # volumes: floor chi/N before renormalisation, then divide by the total
    cl = [eq(fr[i] * G, g[i]) for i in range(N)]
    sess.prove(f"{tag}: f'_i * sum(g) = g_i with g_i = chi/N if f_i < chi/N else f_i (strict threshold)", pc, z3.And(*cl))
    sess.prove(f"{tag}: sum f' = 1", pc, eq(sum(fr, R(0)), 1))
    for i in range(N):
        sess.prove(f"{tag}: f'_{i} >= chi / (N (1 + chi))", pc, (fr[i] * (N * (1 + chi)) >= chi).z3())
    for i in range(N):
        for j in range(N):
            if i < j:
                sess.prove(f"{tag}: unfloored grains {i},{j} keep their relative volumes", pc + [z3.Not(mask[i].z3()), z3.Not(mask[j].z3())], eq(fr[i] * f0[j], fr[j] * f0[i]))
            if i != j:
                sess.prove(f"{tag}: ordering preserved f_{i} <= f_{j} => f'_{i} <= f'_{j}", pc + [(R(f0[i]) <= R(f0[j])).z3()], (fr[i] <= fr[j]).z3())
    zero = [eq(chi, 0)]
    sess.prove(f"{tag}: chi = 0 => no grain frozen (orientations unchanged)", pc + zero, all_eq(o, cur0))
    sess.prove(f"{tag}: chi = 0 => no grain floored (volumes unchanged)", pc + zero, all_eq(fr, f0))
    sess.prove(f"{tag}: tie at the threshold is not floored", pc + [eq(f0[0], thr)], z3.And(all_eq(o[0], cur0[0]), eq(fr[0] * G, f0[0])))
    sample(sess, obligation="floor + renormalise", N=N, f_out0=str(fr[0])[:240])


def t_call_site(sess, n_grains, steps, regime="matrix_dislocation"):
    """Where and with what the real update calls apply_gbs; what ends up in the stored snapshot."""
    mods = pydrex_modules()
    minerals, utils = mods["minerals"], mods["utils"]
    sess.encode(minerals.Mineral.update_orientations, utils.apply_gbs, utils.extract_vars)
    N = n_grains
    sess.bounds[f"call_site[N={N}]"] = f"{steps} solver steps with arbitrary finite state after each; history of 2 arbitrary valid snapshots"
    sess.assume_env("LSODA contract: after each step y is an arbitrary finite vector whose clipped volume block has positive sum")
    log, dlog, spy = [], [], []
    plan = stubs.LsodaPlan(steps=steps, n_grains=N)
    real_gbs = utils.apply_gbs

    def gbs_spy(orientations, fractions, thr, prev, n):
        rec = {"o_in": orientations.view(np.ndarray).copy(), "f_in": fractions.view(np.ndarray).copy(), "thr": thr, "prev": prev, "n": n,
               "y_before": log[0].y.view(np.ndarray).copy()}
        out = real_gbs(orientations, fractions, thr, prev, n)
        rec["o_out"], rec["f_out"] = out[0].view(np.ndarray).copy(), out[1].view(np.ndarray).copy()
        spy.append(rec)
        return out

    def fn():
        log.clear()
        dlog.clear()
        spy.clear()
        from .kernel import enums

        m, snaps = mh.make_mineral(N, history=2, regime=getattr(enums()[2], regime))
        mh.assume_valid(snaps)
        params = mh.sym_params(N)
        L = quat.symmat("L")
        start_snapshot = m.orientations[-1]
        Fm = m.update_orientations(params, quat.symmat("F"), lambda t, x: L, (real("t0"), real("t1"), lambda t: sarr(np.zeros(3))))
        return m, snaps, params, start_snapshot, list(spy), Fm

    with mh.env(plan, log, derivatives=mh.deriv_stub_factory(dlog, N), extra=[(utils, "apply_gbs", gbs_spy)]):
        paths, info = sym.explore(fn)
    p = main_path(sess, paths, "GBS call site")
    if p is None:
        return
    m, snaps, params, start, calls, Fm = p.value
    pc = p.pc
    tag = f"call site[N={N}, {regime}]"
    sess.satisfiable(f"{tag}: reach", pc)
    orig_prove = sess.prove
    first = {}

    def prove(name, *a, **k):  # every failing call-site claim is replayed on the real update with apply_gbs wrapped
        q = orig_prove(name, *a, **k)
        if not q.holds and q.verdict == "sat":
            ce = {"name": name, "case": {}, "cls": {"kind": "GBS call site / stored snapshot deviates", "claim": name.split(": ", 1)[-1][:80]}}
            if not first:
                first["n"] = name
                ce["replay"] = "vf.props.C09:replay_call_site"
            else:
                ce["same_as"] = first["n"]
            sess.cex.append(ce)
        return q

    sess.prove = prove
    sess.prove(f"{tag}: apply_gbs is called once per solver step", pc, z3.BoolVal(len(calls) == steps))
    for k, c in enumerate(calls):
        sess.prove(f"{tag}: step {k+1}: reference orientations are the snapshot stored at the start of the update (same object)", pc,
                   z3.BoolVal(c["prev"] is start and start is snaps[-1][0]))
        sess.prove(f"{tag}: step {k+1}: threshold is params['gbs_threshold'] and n is the grain count", pc,
                   z3.And(eq(c["thr"], params["gbs_threshold"]), z3.BoolVal(c["n"] == N)))
        y = c["y_before"]
        o_exp = np.empty(9 * N, dtype=object)
        for i in range(9 * N):
            o_exp[i] = sym.rmin(sym.rmax(y[9 + i], -1), 1)
        sess.prove(f"{tag}: step {k+1}: orientations handed to GBS are the solver's, clipped to [-1,1]", pc, all_eq(c["o_in"].reshape(-1), o_exp))
        fcl = [sym.rmax(y[9 + 9 * N + i], 0) for i in range(N)]
        tot = sum(fcl, R(0))
        sess.prove(f"{tag}: step {k+1}: volumes handed to GBS are the solver's, clipped at 0 and normalised", pc,
                   z3.And(*[eq(c["f_in"][i] * tot, fcl[i]) for i in range(N)]))
    if not calls:
        sess.prove = orig_prove
        sample(sess, obligation="GBS call site", steps=steps, calls=0)
        return
    last = calls[-1]
    sess.prove(f"{tag}: exactly one snapshot appended", pc, z3.BoolVal(len(m.orientations) == 3 and len(m.fractions) == 3))
    sess.prove(f"{tag}: stored volumes are exactly the last GBS output (renormalisation is the identity on it)", pc, all_eq(m.fractions[-1], last["f_out"]))
    sess.prove(f"{tag}: stored orientations are exactly the last GBS output", pc, all_eq(m.orientations[-1], last["o_out"]))
    sess.prove = orig_prove
    sample(sess, obligation="GBS call site", steps=steps, stored_f0=str(m.fractions[-1][0])[:200])


def replay_call_site(case):
    """Real update (JIT on, real LSODA) with the public pydrex.utils.apply_gbs wrapped: reference orientations must
    be the snapshot stored at the start of the update at every solver step; the stored snapshot must be the last
    GBS output; floored grains must end with exactly their start-of-update orientation."""
    import numpy as np
    import pydrex
    from pydrex import core, utils

    calls = []
    real = utils.apply_gbs

    def spy(orientations, fractions, thr, prev, n):
        rec = {"prev": prev.copy(), "thr": thr, "n": n, "f_in": fractions.copy()}
        out = real(orientations, fractions, thr, prev, n)
        rec["o_out"], rec["f_out"] = out[0].copy(), out[1].copy()
        calls.append(rec)
        return out

    utils.apply_gbs = spy
    problems = []
    try:
      for regime in (core.DeformationRegime.matrix_dislocation, core.DeformationRegime.frictional_yielding, core.DeformationRegime.matrix_diffusion, core.DeformationRegime.max_viscosity):
        f0 = np.random.default_rng(5).dirichlet(np.ones(60) * 0.4)
        m = pydrex.Mineral(regime=regime, n_grains=60, seed=11, fractions_init=f0)
        params = core.DefaultParams().as_dict()
        params["number_of_grains"] = 17  # deliberately NOT the mineral's grain count (60): the floor is chi / n_grains of the aggregate itself
        params["gbs_threshold"] = 0.5
        L = np.zeros((3, 3))
        L[0, 2] = 2.0
        Fm = np.eye(3)
        for step in range(2):
            start = m.orientations[-1].copy()
            calls.clear()
            Fm = m.update_orientations(params, Fm, lambda t, x: L, (step * 0.3, (step + 1) * 0.3, lambda t: np.zeros(3)))
            if not calls:
                problems.append(f"regime {regime.name}: apply_gbs never called (small grains neither floored nor frozen)")
                continue
            for k, c in enumerate(calls):
                if not np.array_equal(c["prev"], start):
                    problems.append(f"update {step} solver step {k}: reference orientations differ from the start-of-update snapshot")
                    break
                if c["thr"] != params["gbs_threshold"] or c["n"] != 60:
                    problems.append(f"update {step}: wrong threshold / grain count passed to apply_gbs")
                    break
            last = calls[-1]
            if not (np.allclose(m.fractions[-1], last["f_out"], rtol=0, atol=1e-15) and np.array_equal(m.orientations[-1], np.clip(last["o_out"], -1, 1))):
                problems.append(f"update {step}: stored snapshot is not the last GBS output")
            floored = last["f_in"] < params["gbs_threshold"] / 60
            if floored.any() and not np.array_equal(m.orientations[-1][floored], start[floored]):
                problems.append(f"update {step}: {int(floored.sum())} floored grains do not keep their start-of-update orientation")
    finally:
        utils.apply_gbs = real
    return {"reproduced": bool(problems), "detail": problems[:4] or "call site behaves as specified", "solver_steps_last_update": len(calls)}


def default_cex(name):
    if name.startswith("call site"):
        return {"replay": "vf.props.C09:replay_call_site", "case": {}, "cls": {"kind": "GBS call site / stored snapshot deviates"}}
    return {"replay": "vf.props.replays:c09_apply_gbs", "case": {}, "cls": {"kind": "apply_gbs deviates from floor-and-freeze below chi/n"}}
