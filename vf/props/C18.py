"""C18 -- analytic flows are self-consistent; pathline helpers follow them inside the domain.

Jacobian by dual numbers: the real velocity kernels are executed on positions x + eps e_k (forward-mode
automatic differentiation over symbolic reals; derivative rules of sin, cos, arctan2, /, ** in the
trusted shim below); the derivative parts must equal the paired gradient kernel's entries.
"""

from __future__ import annotations

import itertools as it

import numpy as np
import z3

from .. import quat, solve, stubs, sym
from ..sarr import NpProxy, SArr, patched, sarr
from ..sym import R, SymBool, real
from .common import all_eq, eq, np_installed, pydrex_modules, sample, only_path

TIMEOUT_MS = {"quick": 60000, "thorough": 300000}
PAIRS = [("X", "Y"), ("X", "Z"), ("Y", "X"), ("Y", "Z"), ("Z", "X"), ("Z", "Y")]


def tasks(tier):
    t = [("t_flow", {"flow": fl, "pair": list(pr)}) for fl in ("simple_shear_2d", "cell_2d", "corner_2d") for pr in PAIRS]
    t += [("t_strain_increment", {}), ("t_pathline_helpers", {}), ("t_bad_axes", {})]
    t += [("t_get_pathline", {"regular_steps": rs, "nodes": nd}) for rs, nd in ((None, 3), (1, 2), (3, 3))]
    if tier == "thorough":
        t += [("t_get_pathline", {"regular_steps": rs, "nodes": nd}) for rs, nd in ((None, 2), (None, 5), (2, 4), (6, 3))]
    t += [("t_pathline_event", {"evals": 3 if tier == "quick" else 4})]
    return t


class Dual:
    """value + sum_k d[k] eps_k (first order)."""

    __array_ufunc__ = None

    def __init__(self, v, d=None):
        self.v = R(v)
        self.d = [R(x) for x in (d if d is not None else (0, 0, 0))]

    @staticmethod
    def co(o):
        return o if isinstance(o, Dual) else Dual(o)

    def __add__(self, o):
        o = Dual.co(o)
        return Dual(self.v + o.v, [a + b for a, b in zip(self.d, o.d)])

    __radd__ = __add__

    def __neg__(self):
        return Dual(-self.v, [-a for a in self.d])

    def __sub__(self, o):
        return self + (-Dual.co(o))

    def __rsub__(self, o):
        return Dual.co(o) + (-self)

    def __mul__(self, o):
        o = Dual.co(o)
        return Dual(self.v * o.v, [a * o.v + self.v * b for a, b in zip(self.d, o.d)])

    __rmul__ = __mul__

    def __truediv__(self, o):
        o = Dual.co(o)
        q = self.v / o.v
        return Dual(q, [(a - q * b) / o.v for a, b in zip(self.d, o.d)])

    def __rtruediv__(self, o):
        return Dual.co(o) / self

    def __pow__(self, e):
        if not isinstance(e, (int, np.integer)) or e < 1:
            raise sym.Unsupported("dual power with non-positive-integer exponent")
        out = self
        for _ in range(int(e) - 1):
            out = out * self
        return out

    def __abs__(self):
        return abs(self.v)  # only used in comparisons (domain guards)

    def sin(self):
        c = self.v.cos()
        return Dual(self.v.sin(), [c * a for a in self.d])

    def cos(self):
        s = self.v.sin()
        return Dual(self.v.cos(), [-(s * a) for a in self.d])

    def arctan2(self, x):
        y, x = self, Dual.co(x)
        n2 = x.v * x.v + y.v * y.v
        return Dual(sym.ctx().ufs.arctan2(y.v, x.v), [(x.v * a - y.v * b) / n2 for a, b in zip(y.d, x.d)])

    def __lt__(self, o):
        return self.v < (o.v if isinstance(o, Dual) else o)

    def __gt__(self, o):
        return self.v > (o.v if isinstance(o, Dual) else o)

    def __le__(self, o):
        return self.v <= (o.v if isinstance(o, Dual) else o)

    def __ge__(self, o):
        return self.v >= (o.v if isinstance(o, Dual) else o)


def _position(dual):
    xs = [real(f"x{i}") for i in range(3)]
    if not dual:
        return xs, sarr(np.array(xs, dtype=object))
    arr = np.empty(3, dtype=object)
    for i in range(3):
        arr[i] = Dual(xs[i], [1 if k == i else 0 for k in range(3)])
    return xs, arr.view(SArr)


class VelProxy(NpProxy):
    """np proxy for velocity.py: trig / abs on dual numbers go to the shim."""

    def cos(self, x):
        return x.cos() if isinstance(x, Dual) else super().cos(x)

    def sin(self, x):
        return x.sin() if isinstance(x, Dual) else super().sin(x)

    def abs(self, x):
        return abs(x) if isinstance(x, Dual) else super().abs(x)

    def arctan2(self, y, x):
        if isinstance(y, Dual) or isinstance(x, Dual):
            return Dual.co(y).arctan2(x)
        return super().arctan2(y, x)


def t_flow(sess, flow, pair):
    mods = pydrex_modules()
    vel, geo = mods["velocity"], mods["geometry"]
    kern = {"simple_shear_2d": (vel._simple_shear_2d, vel._simple_shear_2d_grad), "cell_2d": (vel._cell_2d, vel._cell_2d_grad),
            "corner_2d": (vel._corner_2d, vel._corner_2d_grad)}[flow]
    sess.encode(getattr(vel, flow), kern[0], kern[1], geo.to_indices2d)
    sess.bounds["flows"] = "every position of the domain (symbolic), symbolic amplitude / cell size / plate speed; axis pairs listed in the task names"
    sess.assume_env("derivative rules of the dual-number shim: (sin u)' = cos u u', (cos u)' = -sin u u', d arctan2(y, x) = (x dy - y dx)/(x^2 + y^2), quotient and product rules; sin^2 + cos^2 = 1")
    a, b = pair
    tag = f"{flow}[{a}{b}]"

    def fn():
        amp = real("amp")
        if flow == "simple_shear_2d":
            u, L = vel.simple_shear_2d(a, b, amp)
        elif flow == "cell_2d":
            dlen = real("d")
            sym.ctx().assume((dlen > 0).z3())
            u, L = vel.cell_2d(a, b, amp, dlen)
        else:
            u, L = vel.corner_2d(a, b, amp)
        # another flow of the same family -- other axes, other parameters -- is built (and used) after the one under test
        # and before it is evaluated: the callables must keep their own axes and parameters (nothing shared, last call does not win)
        oa, ob_ = {"X": ("Y", "Z"), "Y": ("Z", "X"), "Z": ("X", "Y")}[a]
        if oa == b:
            oa, ob_ = ob_, oa
        other = {"simple_shear_2d": lambda: vel.simple_shear_2d(oa, a, 3.5), "cell_2d": lambda: vel.cell_2d(b, a, 0.25, 7.0), "corner_2d": lambda: vel.corner_2d(b, a, 2.5)}[flow]()
        other[0](0.5, np.array([0.3, -0.2, 0.1]))
        other[1](0.5, np.array([0.3, -0.2, 0.1]))
        xs, xd = _position(True)
        _, xp = _position(False)
        if flow == "corner_2d":
            h, v = geo.to_indices2d(a, b)
            sym.ctx().assume(z3.Or((abs(xs[h]) >= R(1e-15)).z3(), (abs(xs[v]) >= R(1e-15)).z3()))
        t = real("t")
        ud = u(t, xd)
        Lp = L(t, xp)
        return xs, ud, Lp

    with np_installed(vel, proxy=VelProxy()):
        paths, info = sym.explore(fn, catch=(Exception,))
    sess.paths[tag] = {"paths": len(paths)}
    if flow == "cell_2d":
        h, v = geo.to_indices2d(a, b)
        xs = [real(f"x{i}") for i in range(3)]
        dlen = real("d")
        inside = z3.And((abs(xs[h]) <= dlen / 2).z3(), (abs(xs[v]) <= dlen / 2).z3())
    n_ret = 0
    reported = {}
    for k, p in enumerate(paths):
        pt = f"{tag} path {k}"
        if isinstance(p.exc, ValueError) and flow == "cell_2d":
            sess.prove(f"{pt}: ValueError only for positions outside the cell", p.pc, z3.Not(inside))
            continue
        if p.exc is not None:
            sess.prove(f"{pt}: raises {type(p.exc).__name__}: {str(p.exc)[:80]}", p.pc, z3.BoolVal(False))
            continue
        n_ret += 1
        xs, ud, Lp = p.value
        for ob in p.obligations:
            sess.prove(f"{pt}: {ob.kind} cannot happen at `{(ob.site or ('', '?'))[1]}`", ob.pc, ob.cond)
        if flow == "cell_2d":
            sess.prove(f"{pt}: callables return only inside the closed cell", p.pc, inside)
        sess.satisfiable(f"{pt}: reach", p.pc)
        J = np.empty((3, 3), dtype=object)
        for i in range(3):
            ui = ud[i]
            for kk in range(3):
                J[i, kk] = ui.d[kk] if isinstance(ui, Dual) else R(0)
        Lp = np.asarray(Lp, dtype=object)
        for i in range(3):
            for kk in range(3):
                name = f"{pt}: gradient[{i},{kk}] = d u_{i} / d x_{kk}"
                q = sess.prove(name, p.pc, eq(Lp[i, kk], J[i, kk]))
                if not q.holds:
                    # is it exactly the recorded defect (same entry, same wrong value)? anything else is a new class
                    h_, v_ = geo.to_indices2d(a, b)
                    role = {h_: "h", v_: "v"}
                    entry = role.get(i, "o") + role.get(kk, "o")
                    kind = "velocity gradient is not the Jacobian of the velocity"
                    recorded = None
                    if flow == "simple_shear_2d" and entry == "hv":
                        recorded = eq(Lp[i, kk], 2 * J[i, kk])
                    elif flow == "cell_2d" and entry == "vv":
                        recorded = eq(Lp[i, kk], J[v_, h_])
                    elif flow == "cell_2d" and entry == "vh":
                        recorded = eq(Lp[i, kk], J[v_, v_])
                    if recorded is None or not sess.prove(f"{name} [deviation is exactly the recorded one]", p.pc, recorded, tags={"optional": True, "aux": True}).holds:
                        kind += f" (entry {entry}: not a recorded defect)"
                    _cex(sess, reported, name, flow, pair, kind, q.model, entry=entry)
        name = f"{pt}: velocity gradient is trace-free"
        q = sess.prove(name, p.pc, eq(Lp[0, 0] + Lp[1, 1] + Lp[2, 2], 0))
        if not q.holds:
            kind = "velocity gradient has non-zero trace"
            h_, v_ = geo.to_indices2d(a, b)
            if not (flow == "cell_2d" and sess.prove(f"{name} [trace is exactly the recorded one: J_hh + J_vh]", p.pc,
                                                     eq(Lp[0, 0] + Lp[1, 1] + Lp[2, 2], J[h_, h_] + J[v_, h_]), tags={"optional": True, "aux": True}).holds):
                kind += " (not the recorded defect)"
            _cex(sess, reported, name, flow, pair, kind, q.model)
    if flow == "cell_2d":
        cover = z3.Or(*[z3.And(*p.branch_conds) for p in paths if isinstance(p.exc, ValueError)]) if any(isinstance(p.exc, ValueError) for p in paths) else z3.BoolVal(False)
        sess.prove(f"{tag}: every position outside the cell raises ValueError", [z3.Not(inside), (real('d') > 0).z3()], cover)
    sample(sess, obligation="Jacobian by dual numbers", flow=tag, paths=len(paths))


def _cex(sess, reported, name, flow, pair, kind, model, entry=None):
    ce = {"name": name, "case": {"flow": flow, "pair": pair}, "cls": {"flow": flow, "kind": kind}}
    if entry:
        ce["cls"]["entry"] = entry
    key = (flow, kind, entry)
    if key not in reported:
        reported[key] = name
        ce["replay"] = "vf.props.C18:replay_flow"
        ce["case"]["kind"] = kind
    else:
        ce["same_as"] = reported[key]
    sess.cex.append(ce)


def replay_flow(case):
    """Public callables: compare L(x) with a central-difference Jacobian of u at interior points."""
    import numpy as np
    from pydrex import velocity as vel

    a, b = case["pair"]
    flow = case["flow"]
    if flow == "simple_shear_2d":
        u, L = vel.simple_shear_2d(a, b, 0.7)
    elif flow == "cell_2d":
        u, L = vel.cell_2d(a, b, 1.3, 2.0)
    else:
        u, L = vel.corner_2d(a, b, 1.1)
    worst, worst_tr = 0.0, 0.0
    for x in ([0.3, -0.2, 0.45], [-0.6, 0.25, 0.1], [0.15, 0.55, -0.35]):
        x = np.array(x)
        J = np.zeros((3, 3))
        h = 1e-6
        for k in range(3):
            e = np.zeros(3)
            e[k] = h
            J[:, k] = (u(np.nan, x + e) - u(np.nan, x - e)) / (2 * h)
        Lx = L(np.nan, x)
        worst = max(worst, float(np.abs(Lx - J).max()))
        worst_tr = max(worst_tr, abs(float(np.trace(Lx))))
    bad = worst_tr > 1e-6 if "trace" in case.get("kind", "") else worst > 1e-5
    return {"reproduced": bool(bad), "detail": {"max |L - J(u)|": worst, "max |trace L|": worst_tr}}


def t_strain_increment(sess):
    utils = pydrex_modules()["utils"]
    sess.encode(utils.strain_increment)
    sess.assume_env("np.linalg.eigvalsh by contract: max |eigenvalue| of the symmetric matrix read from the lower triangle = specrad >= 0")
    proxy = NpProxy(linalg={"eigvalsh": stubs.eigvalsh_stub})

    def fn():
        dt = real("dt")
        L = quat.symmat("L")
        out = utils.strain_increment(dt, L)
        apps = sym.ctx().notes.get("specrad_apps", [])
        return dt, L, out, apps

    with np_installed(utils, proxy=proxy):
        paths, _ = sym.explore(fn)
    p = only_path(sess, paths)
    dt, L, out, apps = p.value
    sess.satisfiable("strain increment: reach", p.pc)
    if len(apps) != 1:
        # the tree does not ask LAPACK for the eigenvalues (a closed form, say): the statement itself is decided instead --
        # with E = |dt| (L + L^T)/2 the result r is a root of det(E - x I) det(E + x I) and both r I - E and r I + E are
        # positive semi-definite (all principal minors >= 0), i.e. r = |dt| x the largest absolute principal strain rate
        from ..sarr import det3

        a = abs(dt)
        E = [[a * (L[i, j] + L[j, i]) / 2 for j in range(3)] for i in range(3)]
        r = R(out)

        def shifted(sign):
            return np.array([[(r if i == j else R(0)) + sign * E[i][j] for j in range(3)] for i in range(3)], dtype=object)

        lemmas = []
        for args_, res, _ in p.uf_apps.get("sqrt", []):  # sqrt applications: r >= 0 and r^2 = argument
            lemmas += [res >= 0, res * res == args_[0]]
        sess.prove("strain increment (no eigenvalue routine): result is non-negative", list(p.pc) + lemmas, (r >= 0).z3())
        sess.prove("strain increment (no eigenvalue routine): result is |dt| x a principal strain rate in absolute value (root of det(E - xI) det(E + xI))",
                   list(p.pc) + lemmas, eq(det3(shifted(-1)) * det3(shifted(1)), 0))
        minors = []
        for sg in (-1, 1):
            Mx = shifted(sg)
            minors += [(Mx[i][i] >= 0).z3() for i in range(3)]
            minors += [(Mx[i][i] * Mx[j][j] - Mx[i][j] * Mx[j][i] >= 0).z3() for i, j in ((0, 1), (0, 2), (1, 2))]
            minors.append((det3(Mx) >= 0).z3())
        sess.prove("strain increment (no eigenvalue routine): no principal strain rate exceeds the result in absolute value", list(p.pc) + lemmas, z3.And(*minors))
        return
    args, rho = apps[0]
    D = (L + L.transpose()) / 2
    want = [D[i, j] for i in range(3) for j in range(i + 1)]
    sess.prove("strain increment: eigenvalues are taken of the symmetric part (L + L^T)/2", p.pc, all_eq(args, want))
    sess.prove("strain increment = |dt| x largest absolute principal strain rate", p.pc, eq(out, abs(dt) * rho))


def t_pathline_helpers(sess):
    pl = pydrex_modules()["pathlines"]
    sess.encode(pl._is_inside, pl._ivp_func, pl._ivp_jac)
    sess.outside_claim("get_pathline itself is decided around a contract solve_ivp in t_get_pathline / t_pathline_event; accuracy of the integrated curve and the 1.25 x slack of the event location remain scipy's")

    def fn():
        x = quat.symvec("x", 3)
        lo = [real(f"lo{i}") for i in range(3)]
        hi = [real(f"hi{i}") for i in range(3)]
        uvec = quat.symvec("u", 3)
        Jm = quat.symmat("J")
        inside = pl._is_inside(x, lo, hi)
        f = pl._ivp_func(real("t"), x, lambda t, p_: uvec, lambda t, p_: Jm, lo, hi)
        j = pl._ivp_jac(real("t"), x, lambda t, p_: uvec, lambda t, p_: Jm, lo, hi)
        return x, lo, hi, uvec, Jm, inside, f, j

    with np_installed(pl):
        paths, _ = sym.explore(fn, catch=(Exception,))
    sess.paths["pathline_helpers"] = {"paths": len(paths)}
    for k, p in enumerate(paths):
        if p.exc is not None:
            sess.prove(f"pathline helpers path {k}: raises {type(p.exc).__name__}: {str(p.exc)[:80]}", p.pc, z3.BoolVal(False))
            continue
        x, lo, hi, uvec, Jm, inside, f, j = p.value
        box = z3.And(*[z3.And((x[i] >= lo[i]).z3(), (x[i] <= hi[i]).z3()) for i in range(3)])
        sess.satisfiable(f"pathline helpers path {k}: reach", p.pc)
        sess.prove(f"pathline helpers path {k}: _is_inside <=> min <= x <= max component-wise (closed box)", p.pc, z3.BoolVal(bool(inside)) == box)
        if inside:
            sess.prove(f"pathline helpers path {k}: inside the box the ODE right-hand side is u(x) and its Jacobian is grad u(x)", p.pc,
                       z3.And(all_eq(f, uvec), all_eq(j, Jm)))
        else:
            sess.prove(f"pathline helpers path {k}: outside the box the right-hand side and its Jacobian are zero", p.pc,
                       z3.And(all_eq(f, sarr(np.zeros(3))), all_eq(j, sarr(np.zeros((3, 3))))))


class _IvpSpy:
    """scipy.integrate as seen by get_pathline: solve_ivp records its arguments and returns a nondeterministic
    result that satisfies solve_ivp's documented contract for a backward integration (t[0] = t_span[0], nodes
    strictly monotone towards t_span[1], a dense-output interpolant)."""

    def __init__(self, nodes, exercise=None):
        self.nodes, self.calls, self.exercise = nodes, [], exercise

    def solve_ivp(self, fun, t_span, y0, method="RK45", t_eval=None, dense_output=False, events=None, vectorized=False, args=None, **options):
        c = sym.ctx()
        self.calls.append(dict(fun=fun, t_span=t_span, y0=y0, method=method, dense_output=dense_output, events=events, args=args, options=options, t_eval=t_eval))
        ts = [R(t_span[0])] + [real(f"T{k}") for k in range(1, self.nodes)]
        for a, b in zip(ts, ts[1:]):
            c.assume((b < a).z3() if not (R(t_span[1]) > R(t_span[0])) else (b > a).z3())
        c.assume((ts[-1] >= R(t_span[1])).z3() if not (R(t_span[1]) > R(t_span[0])) else (ts[-1] <= R(t_span[1])).z3())
        if self.exercise is not None:
            self.exercise(self.calls[-1])
        spy = self

        class Sol:
            def __call__(self, t):
                return quat.symvec("solx", 3)

        class Path:
            t = sarr(np.array(ts, dtype=object))
            sol = Sol()
            t_events = None
            status = 1

        spy.path = Path
        return Path


def t_get_pathline(sess, regular_steps, nodes):
    """get_pathline around a nondeterministic solve_ivp: what it asks the integrator to do and what it returns."""
    pl = pydrex_modules()["pathlines"]
    sess.encode(pl.get_pathline)
    sess.assume_env("scipy.integrate.solve_ivp by contract: result.t[0] = t_span[0], result.t strictly monotone towards t_span[1], result.sol is the dense interpolant of the solution of y' = fun(t, y, *args), y(t_span[0]) = y0, stopped at the first zero of a terminal event")
    sess.outside_claim("accuracy of the integrated pathline (dx/dt = u within tolerance, staying inside the box) and the 1.25 x slack of the event location are properties of scipy's LSODA and root finder")
    sess.bounds["get_pathline"] = f"{nodes} solver nodes, regular_steps = {regular_steps}; final location, box, strain limit symbolic"
    spy = _IvpSpy(nodes)
    u = lambda t, x: quat.symvec("u", 3)  # noqa: E731
    Lg = lambda t, x: quat.symmat("L")  # noqa: E731

    def fn():
        spy.calls.clear()
        x_end = quat.symvec("xe", 3)
        lo = [real(f"lo{i}") for i in range(3)]
        hi = [real(f"hi{i}") for i in range(3)]
        smax = real("smax")
        sym.ctx().assume((smax > 0).z3())
        ts, interp = pl.get_pathline(x_end, u, Lg, lo, hi, smax, regular_steps=regular_steps, first_step=real("h0"), jac="user", events="user")
        return x_end, lo, hi, smax, ts, interp

    class Quiet:
        def __getattr__(self, k):
            return lambda *a, **kw: None

    with patched((pl, "np", NpProxy()), (pl, "si", spy), (pl, "_log", Quiet())):
        paths, _ = sym.explore(fn, catch=(Exception,))
    tag = f"get_pathline[regular_steps={regular_steps}, nodes={nodes}]"
    p = only_path(sess, paths)
    if p.exc is not None:
        sess.prove(f"{tag}: raises {type(p.exc).__name__}: {str(p.exc)[:80]}", p.pc, z3.BoolVal(False))
        return
    x_end, lo, hi, smax, ts, interp = p.value
    sess.satisfiable(f"{tag}: reach", p.pc)
    sess.prove(f"{tag}: exactly one integration", p.pc, z3.BoolVal(len(spy.calls) == 1))
    c = spy.calls[0]
    ev = c["events"]
    ev = list(ev) if isinstance(ev, (list, tuple)) else [ev]
    sess.prove(f"{tag}: integrates the flow helper _ivp_func with Jacobian _ivp_jac and a dense interpolant", p.pc,
               z3.BoolVal(c["fun"] is pl._ivp_func and c["options"].get("jac") is pl._ivp_jac and c["dense_output"] is True and c["t_eval"] is None))
    sess.prove(f"{tag}: starts at the requested final location at t = 0 and runs backwards in time", p.pc,
               z3.And(all_eq(c["y0"], x_end), eq(R(c["t_span"][0]), 0), (R(c["t_span"][1]) < 0).z3(), z3.BoolVal(len(c["t_span"]) == 2)))
    a = c["args"] or ()
    sess.prove(f"{tag}: helper arguments are (velocity, gradient, min, max) of the caller", p.pc,
               z3.BoolVal(len(a) == 4 and a[0] is u and a[1] is Lg and a[2] is lo and a[3] is hi))
    sess.prove(f"{tag}: one terminal event (the strain / domain monitor); the user's events/jac keywords are dropped", p.pc,
               z3.BoolVal(len(ev) == 1 and callable(ev[0]) and getattr(ev[0], "terminal", False) is True and getattr(ev[0], "direction", 0) == 0))
    opts = c["options"]
    sess.prove(f"{tag}: defaults LSODA, atol 1e-8, rtol 1e-5; other keywords passed through", p.pc,
               z3.BoolVal(c["method"] == "LSODA" and opts.get("atol") == 1e-8 and opts.get("rtol") == 1e-5 and "first_step" in opts and set(opts) == {"jac", "atol", "rtol", "first_step"}))
    sess.prove(f"{tag}: the returned interpolant is the integrator's dense output", p.pc, z3.BoolVal(interp is spy.path.sol))
    T = list(np.asarray(spy.path.t, dtype=object).flat)
    ts = list(np.asarray(ts, dtype=object).flat)
    if regular_steps is None:
        sess.prove(f"{tag}: timestamps are the integrator's nodes in increasing order", p.pc, z3.And(z3.BoolVal(len(ts) == len(T)), all_eq(ts, T[::-1])))
    else:
        sess.prove(f"{tag}: regular_steps + 1 timestamps from the earliest node to t = 0", p.pc, z3.And(z3.BoolVal(len(ts) == regular_steps + 1), eq(ts[0], T[-1])))
        if regular_steps > 1:
            sess.prove(f"{tag}: timestamps are equally spaced", p.pc, z3.And(*[eq(ts[k + 1] - ts[k], ts[1] - ts[0]) for k in range(len(ts) - 1)]))
    sess.prove(f"{tag}: timestamps strictly increasing", p.pc, z3.And(*[(R(a_) < R(b_)).z3() for a_, b_ in zip(ts, ts[1:])]))
    sess.prove(f"{tag}: last timestamp is exactly 0 (the requested final location)", p.pc, eq(ts[-1], 0))


def t_pathline_event(sess, evals):
    """The terminal event of get_pathline, evaluated (as scipy's root finder does) at an arbitrary sequence of
    times t_k <= 0 in arbitrary order: inside the box in a homogeneous flow it equals max_strain - rate * |t_k|
    whatever the order of evaluation, so it vanishes exactly when the accumulated strain is the requested maximum;
    outside the box it is 0 (always terminate) and does not disturb later evaluations."""
    mods = pydrex_modules()
    pl, utils = mods["pathlines"], mods["utils"]
    sess.encode(pl.get_pathline, utils.strain_increment, pl._is_inside)
    sess.assume_env("np.linalg.eigvalsh by contract (specrad >= 0)")
    sess.bounds["pathline event"] = f"{evals} evaluations of the event at arbitrary times <= 0, each inside or outside the box; homogeneous velocity gradient"
    sess.outside_claim("inhomogeneous flows: the event integrates |dt| x rate(x_k) over the evaluation sequence (right-endpoint rule on scipy's evaluation points), so its zero is only within the stated 1.25 slack of the strain limit")
    rec = {}

    def exercise(call):
        ev = call["events"]
        ev = ev[0] if isinstance(ev, (list, tuple)) else ev
        vals = []
        for k in range(evals):
            tk = real(f"te{k}")
            sym.ctx().assume((tk <= 0).z3())
            xk = quat.symvec(f"xp{k}_", 3)
            vals.append((tk, xk, ev(tk, xk, *call["args"])))
        rec["vals"] = vals

    spy = _IvpSpy(2, exercise=exercise)
    Lm = {}

    def fn():
        spy.calls.clear()
        rec.clear()
        Lm["L"] = quat.symmat("L")
        lo = [real(f"lo{i}") for i in range(3)]
        hi = [real(f"hi{i}") for i in range(3)]
        smax = real("smax")
        sym.ctx().assume((smax > 0).z3())
        pl.get_pathline(quat.symvec("xe", 3), lambda t, x: quat.symvec("u", 3), lambda t, x: Lm["L"], lo, hi, smax)
        return lo, hi, smax, rec["vals"], sym.ctx().notes.get("specrad_apps", [])

    class Quiet:
        def __getattr__(self, k):
            return lambda *a, **kw: None

    proxy = NpProxy(linalg={"eigvalsh": stubs.eigvalsh_stub})
    with patched((pl, "np", NpProxy()), (utils, "np", proxy), (pl, "si", spy), (pl, "_log", Quiet())):
        paths, info = sym.explore(fn, catch=(Exception,), max_paths=4096)
    tag = f"pathline event[{evals} evaluations]"
    sess.paths[tag] = {"paths": len(paths)}
    if info["truncated"]:
        sess.truncated = True
    reached = 0
    for pi, p in enumerate(paths):
        if p.exc is not None:
            sess.prove(f"{tag} path {pi}: raises {type(p.exc).__name__}: {str(p.exc)[:80]}", p.pc, z3.BoolVal(False))
            continue
        lo, hi, smax, vals, apps = p.value
        reached += 1
        claims = []
        rho = apps[0][1] if apps else None
        for tk, xk, v in vals:
            inside = z3.And(*[z3.And((xk[i] >= lo[i]).z3(), (xk[i] <= hi[i]).z3()) for i in range(3)])
            want_in = eq(v, smax + rho * tk) if rho is not None else z3.BoolVal(False)
            claims.append(z3.If(inside, want_in, eq(v, 0)))
        sess.prove(f"{tag} path {pi}: inside the box the event is max_strain - rate |t| for every evaluation order; outside it is 0", p.pc, z3.And(*claims))
    sess.prove(f"{tag}: all 2^{evals} inside/outside patterns explored", [], z3.BoolVal(reached >= 2 ** evals))
    if paths:
        sess.satisfiable(f"{tag}: reach", paths[0].pc)


def replay_pathline(case):
    """Real get_pathline (real solve_ivp) in the three flows: end point, timestamps, dx/dt = u, box, strain."""
    import numpy as np
    from pydrex import pathlines, utils
    from pydrex import velocity as vel

    problems = []
    lo, hi = np.array([-1.0, -1.0, -1.0]), np.array([1.0, 1.0, 1.0])
    flows = {"simple_shear_2d": vel.simple_shear_2d("X", "Z", 1.0), "corner_2d": vel.corner_2d("X", "Z", 1.0)}
    for name, (u, L) in flows.items():
        for end in ([0.3, 0.0, -0.4], [-0.2, 0.0, -0.6]):
            for steps in (None, 7):
                for smax in (0.4, 2.0):
                    end_a = np.array(end)
                    ts, x = pathlines.get_pathline(end_a, u, L, lo, hi, smax, regular_steps=steps)
                    ts = np.asarray(ts)
                    where = f"{name}, end {end}, regular_steps {steps}, max_strain {smax}"
                    if not (ts[-1] == 0 and np.all(np.diff(ts) > 0)):
                        problems.append(f"{where}: timestamps not strictly increasing ending at 0: {ts[:3]}..{ts[-2:]}")
                        continue
                    if steps is not None and len(ts) != steps + 1:
                        problems.append(f"{where}: {len(ts)} timestamps")
                    if not np.allclose(x(0.0), end_a, atol=1e-9):
                        problems.append(f"{where}: pathline does not end at the requested location")
                    fine = np.linspace(ts[0], 0, 400)
                    X = np.array([x(t) for t in fine])
                    if np.any(X < lo - 1e-4) or np.any(X > hi + 1e-4):
                        problems.append(f"{where}: leaves the box")
                    V = np.gradient(X, fine, axis=0)[5:-5]
                    U = np.array([u(np.nan, q) for q in X])[5:-5]
                    if np.abs(V - U).max() > 2e-2 * max(1.0, np.abs(U).max()):
                        problems.append(f"{where}: dx/dt differs from u(x) by {np.abs(V - U).max():.2e}")
                    strain = sum(utils.strain_increment(fine[k + 1] - fine[k], L(np.nan, X[k + 1])) for k in range(len(fine) - 1))
                    if strain > 1.25 * smax + 1e-6:
                        problems.append(f"{where}: accumulated strain {strain:.3f} > 1.25 x {smax}")
                    inside_all = np.all(X > lo + 1e-3) and np.all(X < hi - 1e-3)
                    if inside_all and strain < 0.75 * smax:
                        problems.append(f"{where}: pathline stops inside the domain at strain {strain:.3f} << {smax}")
    # the terminal event itself, captured from the real call and evaluated the way a root finder does: out of order,
    # inside and outside the box, in a homogeneous flow (event = max_strain - rate |t| inside, 0 outside)
    from scipy import integrate as si

    grabbed = {}
    real_ivp = si.solve_ivp

    def grab(fun, t_span, y0, **kw):
        grabbed.update(kw, fun=fun, t_span=t_span, y0=np.array(y0))
        return real_ivp(fun, t_span, y0, **kw)

    u, L = vel.simple_shear_2d("X", "Z", 1.0)
    rate = utils.strain_increment(1.0, L(np.nan, np.zeros(3)))
    si.solve_ivp = grab
    try:
        pathlines.get_pathline(np.array([0.3, 0.0, -0.4]), u, L, lo, hi, 5.0)
    finally:
        si.solve_ivp = real_ivp
    ev = grabbed["events"]
    ev = ev[0] if isinstance(ev, (list, tuple)) else ev
    inside, outside = np.array([0.1, 0.0, 0.2]), np.array([0.1, 0.0, 1.7])
    for seq in ([(-0.1, inside), (-0.3, inside), (-0.2, inside)], [(-0.1, inside), (-0.25, outside), (-0.2, inside), (-0.4, inside)],
                [(-0.5, outside), (-0.05, inside)]):
        si.solve_ivp = grab
        try:
            pathlines.get_pathline(np.array([0.3, 0.0, -0.4]), u, L, lo, hi, 5.0)
        finally:
            si.solve_ivp = real_ivp
        ev = grabbed["events"][0] if isinstance(grabbed["events"], (list, tuple)) else grabbed["events"]
        # the integration above has already advanced the closure's state: only differences are comparable
        base_t, base_v = None, None
        for t, x in seq:
            v = ev(t, x, *grabbed["args"])
            if x is outside:
                if v != 0:
                    problems.append(f"terminal event outside the box returns {v}, not 0")
                continue
            if base_t is not None and not np.isclose(v - base_v, rate * (t - base_t), atol=1e-12):
                problems.append(f"terminal event: value changes by {v - base_v:.4f} between t = {base_t} and t = {t} in a flow of rate {rate} (expected {rate * (t - base_t):.4f})")
            base_t, base_v = t, v
    return {"reproduced": bool(problems), "detail": sorted(set(problems))[:6] or "pathlines consistent"}


def t_bad_axes(sess):
    """Axis pairs outside the six ordered pairs are rejected by every constructor."""
    vel = pydrex_modules()["velocity"]
    ok = True
    for ctor, extra in ((vel.simple_shear_2d, (1.0,)), (vel.cell_2d, (1.0,)), (vel.corner_2d, (1.0,))):
        for a, b in it.product("XYZQ", repeat=2):
            valid = (a, b) in PAIRS
            try:
                ctor(a, b, *extra)
                got = True
            except ValueError:
                got = False
            ok = ok and (got == valid)
    sess.prove("constructors accept exactly the six ordered axis pairs (exhaustive over {X,Y,Z,Q}^2 for three constructors)", [], z3.BoolVal(ok))
    sess.satisfiable("bad axes: reach", [])


def default_cex(name):
    """Generic public-API replay for verdicts that carry no more specific counterexample."""
    if name.startswith(("get_pathline", "pathline event")):
        return {"replay": "vf.props.C18:replay_pathline", "case": {}, "cls": {"kind": "pathline construction inconsistent"}}
    return {"replay": "vf.props.replays:c18_flows", "case": {}, "cls": {"kind": "flow / strain increment inconsistent beyond the recorded defects"}}
