"""C18 -- analytic flows are self-consistent; pathline helpers follow them inside the domain.

Jacobian by dual numbers: the real velocity kernels are executed on positions x + eps e_k (forward-mode
automatic differentiation over symbolic reals; derivative rules of sin, cos, arctan2, /, ** in the
trusted shim below); the derivative parts must equal the paired gradient kernel's entries.
"""

from __future__ import annotations

import itertools as it

import numpy as np
import z3

from .. import quat, solve, stubs, sym
from ..sarr import NpProxy, SArr, patched, sarr
from ..sym import R, SymBool, real
from .common import all_eq, eq, np_installed, pydrex_modules, sample, only_path

TIMEOUT_MS = {"quick": 60000, "thorough": 300000}
PAIRS = [("X", "Y"), ("X", "Z"), ("Y", "X"), ("Y", "Z"), ("Z", "X"), ("Z", "Y")]


def tasks(tier):
    t = [("t_flow", {"flow": fl, "pair": list(pr)}) for fl in ("simple_shear_2d", "cell_2d", "corner_2d") for pr in PAIRS]
    t += [("t_strain_increment", {}), ("t_pathline_helpers", {}), ("t_bad_axes", {})]
    return t


class Dual:
    """value + sum_k d[k] eps_k (first order)."""

    __array_ufunc__ = None

    def __init__(self, v, d=None):
        self.v = R(v)
        self.d = [R(x) for x in (d if d is not None else (0, 0, 0))]

    @staticmethod
    def co(o):
        return o if isinstance(o, Dual) else Dual(o)

    def __add__(self, o):
        o = Dual.co(o)
        return Dual(self.v + o.v, [a + b for a, b in zip(self.d, o.d)])

    __radd__ = __add__

    def __neg__(self):
        return Dual(-self.v, [-a for a in self.d])

    def __sub__(self, o):
        return self + (-Dual.co(o))

    def __rsub__(self, o):
        return Dual.co(o) + (-self)

    def __mul__(self, o):
        o = Dual.co(o)
        return Dual(self.v * o.v, [a * o.v + self.v * b for a, b in zip(self.d, o.d)])

    __rmul__ = __mul__

    def __truediv__(self, o):
        o = Dual.co(o)
        q = self.v / o.v
        return Dual(q, [(a - q * b) / o.v for a, b in zip(self.d, o.d)])

    def __rtruediv__(self, o):
        return Dual.co(o) / self

    def __pow__(self, e):
        if not isinstance(e, (int, np.integer)) or e < 1:
            raise sym.Unsupported("dual power with non-positive-integer exponent")
        out = self
        for _ in range(int(e) - 1):
            out = out * self
        return out

    def __abs__(self):
        return abs(self.v)  # only used in comparisons (domain guards)

    def sin(self):
        c = self.v.cos()
        return Dual(self.v.sin(), [c * a for a in self.d])

    def cos(self):
        s = self.v.sin()
        return Dual(self.v.cos(), [-(s * a) for a in self.d])

    def arctan2(self, x):
        y, x = self, Dual.co(x)
        n2 = x.v * x.v + y.v * y.v
        return Dual(sym.ctx().ufs.arctan2(y.v, x.v), [(x.v * a - y.v * b) / n2 for a, b in zip(y.d, x.d)])

    def __lt__(self, o):
        return self.v < (o.v if isinstance(o, Dual) else o)

    def __gt__(self, o):
        return self.v > (o.v if isinstance(o, Dual) else o)

    def __le__(self, o):
        return self.v <= (o.v if isinstance(o, Dual) else o)

    def __ge__(self, o):
        return self.v >= (o.v if isinstance(o, Dual) else o)


def _position(dual):
    xs = [real(f"x{i}") for i in range(3)]
    if not dual:
        return xs, sarr(np.array(xs, dtype=object))
    arr = np.empty(3, dtype=object)
    for i in range(3):
        arr[i] = Dual(xs[i], [1 if k == i else 0 for k in range(3)])
    return xs, arr.view(SArr)


class VelProxy(NpProxy):
    """np proxy for velocity.py: trig / abs on dual numbers go to the shim."""

    def cos(self, x):
        return x.cos() if isinstance(x, Dual) else super().cos(x)

    def sin(self, x):
        return x.sin() if isinstance(x, Dual) else super().sin(x)

    def abs(self, x):
        return abs(x) if isinstance(x, Dual) else super().abs(x)

    def arctan2(self, y, x):
        if isinstance(y, Dual) or isinstance(x, Dual):
            return Dual.co(y).arctan2(x)
        return super().arctan2(y, x)


def t_flow(sess, flow, pair):
    mods = pydrex_modules()
    vel, geo = mods["velocity"], mods["geometry"]
    kern = {"simple_shear_2d": (vel._simple_shear_2d, vel._simple_shear_2d_grad), "cell_2d": (vel._cell_2d, vel._cell_2d_grad),
            "corner_2d": (vel._corner_2d, vel._corner_2d_grad)}[flow]
    sess.encode(getattr(vel, flow), kern[0], kern[1], geo.to_indices2d)
    sess.bounds["flows"] = "every position of the domain (symbolic), symbolic amplitude / cell size / plate speed; axis pairs listed in the task names"
    sess.assume_env("derivative rules of the dual-number shim: (sin u)' = cos u u', (cos u)' = -sin u u', d arctan2(y, x) = (x dy - y dx)/(x^2 + y^2), quotient and product rules; sin^2 + cos^2 = 1")
    a, b = pair
    tag = f"{flow}[{a}{b}]"

    def fn():
        amp = real("amp")
        if flow == "simple_shear_2d":
            u, L = vel.simple_shear_2d(a, b, amp)
        elif flow == "cell_2d":
            dlen = real("d")
            sym.ctx().assume((dlen > 0).z3())
            u, L = vel.cell_2d(a, b, amp, dlen)
        else:
            u, L = vel.corner_2d(a, b, amp)
        xs, xd = _position(True)
        _, xp = _position(False)
        if flow == "corner_2d":
            h, v = geo.to_indices2d(a, b)
            sym.ctx().assume(z3.Or((abs(xs[h]) >= R(1e-15)).z3(), (abs(xs[v]) >= R(1e-15)).z3()))
        t = real("t")
        ud = u(t, xd)
        Lp = L(t, xp)
        return xs, ud, Lp

    with np_installed(vel, proxy=VelProxy()):
        paths, info = sym.explore(fn, catch=(Exception,))
    sess.paths[tag] = {"paths": len(paths)}
    if flow == "cell_2d":
        h, v = geo.to_indices2d(a, b)
        xs = [real(f"x{i}") for i in range(3)]
        dlen = real("d")
        inside = z3.And((abs(xs[h]) <= dlen / 2).z3(), (abs(xs[v]) <= dlen / 2).z3())
    n_ret = 0
    reported = {}
    for k, p in enumerate(paths):
        pt = f"{tag} path {k}"
        if isinstance(p.exc, ValueError) and flow == "cell_2d":
            sess.prove(f"{pt}: ValueError only for positions outside the cell", p.pc, z3.Not(inside))
            continue
        if p.exc is not None:
            sess.prove(f"{pt}: raises {type(p.exc).__name__}: {str(p.exc)[:80]}", p.pc, z3.BoolVal(False))
            continue
        n_ret += 1
        xs, ud, Lp = p.value
        for ob in p.obligations:
            sess.prove(f"{pt}: {ob.kind} cannot happen at `{(ob.site or ('', '?'))[1]}`", ob.pc, ob.cond)
        if flow == "cell_2d":
            sess.prove(f"{pt}: callables return only inside the closed cell", p.pc, inside)
        sess.satisfiable(f"{pt}: reach", p.pc)
        J = np.empty((3, 3), dtype=object)
        for i in range(3):
            ui = ud[i]
            for kk in range(3):
                J[i, kk] = ui.d[kk] if isinstance(ui, Dual) else R(0)
        Lp = np.asarray(Lp, dtype=object)
        for i in range(3):
            for kk in range(3):
                name = f"{pt}: gradient[{i},{kk}] = d u_{i} / d x_{kk}"
                q = sess.prove(name, p.pc, eq(Lp[i, kk], J[i, kk]))
                if not q.holds:
                    # is it exactly the recorded defect (same entry, same wrong value)? anything else is a new class
                    h_, v_ = geo.to_indices2d(a, b)
                    role = {h_: "h", v_: "v"}
                    entry = role.get(i, "o") + role.get(kk, "o")
                    kind = "velocity gradient is not the Jacobian of the velocity"
                    recorded = None
                    if flow == "simple_shear_2d" and entry == "hv":
                        recorded = eq(Lp[i, kk], 2 * J[i, kk])
                    elif flow == "cell_2d" and entry == "vv":
                        recorded = eq(Lp[i, kk], J[v_, h_])
                    elif flow == "cell_2d" and entry == "vh":
                        recorded = eq(Lp[i, kk], J[v_, v_])
                    if recorded is None or not sess.prove(f"{name} [deviation is exactly the recorded one]", p.pc, recorded, tags={"optional": True, "aux": True}).holds:
                        kind += f" (entry {entry}: not a recorded defect)"
                    _cex(sess, reported, name, flow, pair, kind, q.model, entry=entry)
        name = f"{pt}: velocity gradient is trace-free"
        q = sess.prove(name, p.pc, eq(Lp[0, 0] + Lp[1, 1] + Lp[2, 2], 0))
        if not q.holds:
            kind = "velocity gradient has non-zero trace"
            h_, v_ = geo.to_indices2d(a, b)
            if not (flow == "cell_2d" and sess.prove(f"{name} [trace is exactly the recorded one: J_hh + J_vh]", p.pc,
                                                     eq(Lp[0, 0] + Lp[1, 1] + Lp[2, 2], J[h_, h_] + J[v_, h_]), tags={"optional": True, "aux": True}).holds):
                kind += " (not the recorded defect)"
            _cex(sess, reported, name, flow, pair, kind, q.model)
    if flow == "cell_2d":
        cover = z3.Or(*[z3.And(*p.branch_conds) for p in paths if isinstance(p.exc, ValueError)]) if any(isinstance(p.exc, ValueError) for p in paths) else z3.BoolVal(False)
        sess.prove(f"{tag}: every position outside the cell raises ValueError", [z3.Not(inside), (real('d') > 0).z3()], cover)
    sample(sess, obligation="Jacobian by dual numbers", flow=tag, paths=len(paths))


def _cex(sess, reported, name, flow, pair, kind, model, entry=None):
    ce = {"name": name, "case": {"flow": flow, "pair": pair}, "cls": {"flow": flow, "kind": kind}}
    if entry:
        ce["cls"]["entry"] = entry
    key = (flow, kind, entry)
    if key not in reported:
        reported[key] = name
        ce["replay"] = "vf.props.C18:replay_flow"
        ce["case"]["kind"] = kind
    else:
        ce["same_as"] = reported[key]
    sess.cex.append(ce)


def replay_flow(case):
    """Public callables: compare L(x) with a central-difference Jacobian of u at interior points."""
    import numpy as np
    from pydrex import velocity as vel

    a, b = case["pair"]
    flow = case["flow"]
    if flow == "simple_shear_2d":
        u, L = vel.simple_shear_2d(a, b, 0.7)
    elif flow == "cell_2d":
        u, L = vel.cell_2d(a, b, 1.3, 2.0)
    else:
        u, L = vel.corner_2d(a, b, 1.1)
    worst, worst_tr = 0.0, 0.0
    for x in ([0.3, -0.2, 0.45], [-0.6, 0.25, 0.1], [0.15, 0.55, -0.35]):
        x = np.array(x)
        J = np.zeros((3, 3))
        h = 1e-6
        for k in range(3):
            e = np.zeros(3)
            e[k] = h
            J[:, k] = (u(np.nan, x + e) - u(np.nan, x - e)) / (2 * h)
        Lx = L(np.nan, x)
        worst = max(worst, float(np.abs(Lx - J).max()))
        worst_tr = max(worst_tr, abs(float(np.trace(Lx))))
    bad = worst_tr > 1e-6 if "trace" in case.get("kind", "") else worst > 1e-5
    return {"reproduced": bool(bad), "detail": {"max |L - J(u)|": worst, "max |trace L|": worst_tr}}


def t_strain_increment(sess):
    utils = pydrex_modules()["utils"]
    sess.encode(utils.strain_increment)
    sess.assume_env("np.linalg.eigvalsh by contract: max |eigenvalue| of the symmetric matrix read from the lower triangle = specrad >= 0")
    proxy = NpProxy(linalg={"eigvalsh": stubs.eigvalsh_stub})

    def fn():
        dt = real("dt")
        L = quat.symmat("L")
        out = utils.strain_increment(dt, L)
        apps = sym.ctx().notes.get("specrad_apps", [])
        return dt, L, out, apps

    with np_installed(utils, proxy=proxy):
        paths, _ = sym.explore(fn)
    p = only_path(sess, paths)
    dt, L, out, apps = p.value
    sess.satisfiable("strain increment: reach", p.pc)
    sess.prove("strain increment: exactly one eigenvalue computation", p.pc, z3.BoolVal(len(apps) == 1))
    args, rho = apps[0]
    D = (L + L.transpose()) / 2
    want = [D[i, j] for i in range(3) for j in range(i + 1)]
    sess.prove("strain increment: eigenvalues are taken of the symmetric part (L + L^T)/2", p.pc, all_eq(args, want))
    sess.prove("strain increment = |dt| x largest absolute principal strain rate", p.pc, eq(out, abs(dt) * rho))


def t_pathline_helpers(sess):
    pl = pydrex_modules()["pathlines"]
    sess.encode(pl._is_inside, pl._ivp_func, pl._ivp_jac)
    sess.outside_claim("existence, end point, monotone timestamps, dx/dt = u along the pathline, staying inside the box and the 1.25 x strain slack of get_pathline: they depend on scipy.integrate.solve_ivp (LSODA + event root finding) and a stateful closure")

    def fn():
        x = quat.symvec("x", 3)
        lo = [real(f"lo{i}") for i in range(3)]
        hi = [real(f"hi{i}") for i in range(3)]
        uvec = quat.symvec("u", 3)
        Jm = quat.symmat("J")
        inside = pl._is_inside(x, lo, hi)
        f = pl._ivp_func(real("t"), x, lambda t, p_: uvec, lambda t, p_: Jm, lo, hi)
        j = pl._ivp_jac(real("t"), x, lambda t, p_: uvec, lambda t, p_: Jm, lo, hi)
        return x, lo, hi, uvec, Jm, inside, f, j

    with np_installed(pl):
        paths, _ = sym.explore(fn, catch=(Exception,))
    sess.paths["pathline_helpers"] = {"paths": len(paths)}
    for k, p in enumerate(paths):
        if p.exc is not None:
            sess.prove(f"pathline helpers path {k}: raises {type(p.exc).__name__}: {str(p.exc)[:80]}", p.pc, z3.BoolVal(False))
            continue
        x, lo, hi, uvec, Jm, inside, f, j = p.value
        box = z3.And(*[z3.And((x[i] >= lo[i]).z3(), (x[i] <= hi[i]).z3()) for i in range(3)])
        sess.satisfiable(f"pathline helpers path {k}: reach", p.pc)
        sess.prove(f"pathline helpers path {k}: _is_inside <=> min <= x <= max component-wise (closed box)", p.pc, z3.BoolVal(bool(inside)) == box)
        if inside:
            sess.prove(f"pathline helpers path {k}: inside the box the ODE right-hand side is u(x) and its Jacobian is grad u(x)", p.pc,
                       z3.And(all_eq(f, uvec), all_eq(j, Jm)))
        else:
            sess.prove(f"pathline helpers path {k}: outside the box the right-hand side and its Jacobian are zero", p.pc,
                       z3.And(all_eq(f, sarr(np.zeros(3))), all_eq(j, sarr(np.zeros((3, 3))))))


def t_bad_axes(sess):
    """Axis pairs outside the six ordered pairs are rejected by every constructor."""
    vel = pydrex_modules()["velocity"]
    ok = True
    for ctor, extra in ((vel.simple_shear_2d, (1.0,)), (vel.cell_2d, (1.0,)), (vel.corner_2d, (1.0,))):
        for a, b in it.product("XYZQ", repeat=2):
            valid = (a, b) in PAIRS
            try:
                ctor(a, b, *extra)
                got = True
            except ValueError:
                got = False
            ok = ok and (got == valid)
    sess.prove("constructors accept exactly the six ordered axis pairs (exhaustive over {X,Y,Z,Q}^2 for three constructors)", [], z3.BoolVal(ok))
    sess.satisfiable("bad axes: reach", [])


def default_cex(name):
    """Generic public-API replay for verdicts that carry no more specific counterexample."""
    return {"replay": "vf.props.replays:c18_flows", "case": {}, "cls": {"kind": "flow / strain increment inconsistent beyond the recorded defects"}}
