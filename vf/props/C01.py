"""C01 -- every stored texture snapshot is a valid texture, after any update history.

Inductive step: from an arbitrary valid stored history, one real `update_orientations` call with a
nondeterministic LSODA (arbitrary finite state after each of <= 3 steps) appends exactly one valid
snapshot and leaves every earlier snapshot untouched. The invariant is inductive and the update
reads only the last snapshot, so one step covers histories of any length and any partition.
"""

from __future__ import annotations

import numpy as np
import z3

from .. import quat, stubs, sym
from ..sarr import SArr, sarr
from ..sym import R, real, rmax, rmin
from . import mineral_h as mh
from .common import all_eq, eq, main_path, np_installed, pydrex_modules, sample, only_path

TIMEOUT_MS = {"quick": 60000, "thorough": 300000}


def tasks(tier):
    if tier == "quick":
        return [("t_extract_vars", {"n_grains": 2}), ("t_extract_vars", {"n_grains": 3}),
                ("t_step", {"n_grains": 2, "steps": 1}), ("t_step", {"n_grains": 2, "steps": 3}), ("t_step", {"n_grains": 3, "steps": 2}),
                ("t_step", {"n_grains": 2, "steps": 2, "regime": "min_viscosity"}), ("t_step", {"n_grains": 2, "steps": 2, "regime": "max_viscosity"}),
                ("t_step", {"n_grains": 2, "steps": 2, "regime": "matrix_diffusion"}), ("t_step", {"n_grains": 2, "steps": 2, "regime": "frictional_yielding"}),
                ("t_rhs_pure", {"n_grains": 2}), ("t_initial_snapshot", {}), ("t_seed_plumbing", {})] + [
                    ("t_rate_tangent", {"n_grains": 2, "regime": rg}) for rg in REGIMES] + _kernel_contract_tasks()
    return [("t_rate_tangent", {"n_grains": n, "regime": rg}) for n in (2, 3) for rg in REGIMES] + [("t_extract_vars", {"n_grains": n}) for n in (1, 2, 3, 4)] + [
        ("t_step", {"n_grains": n, "steps": s, "regime": rg}) for n in (2, 3, 4) for s in (1, 2, 3)
        for rg in ("matrix_dislocation", "frictional_yielding", "matrix_diffusion", "min_viscosity", "max_viscosity")
    ] + [("t_rhs_pure", {"n_grains": 3}), ("t_initial_snapshot", {}), ("t_seed_plumbing", {})] + _kernel_contract_tasks()


def _kernel_contract_tasks():
    from . import kernel

    return [("t_kernel_contract", {"phase": ph, "fabric": fb}) for ph, fb in kernel.FABRICS] + [("t_kernel_contract", {"phase": None, "fabric": None})]


def t_kernel_contract(sess, phase, fabric):
    """The stand-in that t_rate_tangent puts in place of the grain kernel in the dislocation-type regimes assumes
    "rate = A . S with S skew".  That contract is proved here, in the same run, on the real source (the tasks are
    C03's): on every feasible path of the real _get_rotation_and_strain the returned rate is exactly zero or exactly
    the result of _get_orientation_change for this grain's orientation (fabric given), and the real
    _get_orientation_change returns A . Omega with Omega skew for every unit quaternion (phase None).  Without this
    a kernel that returns a bare spin on a rare path (a grain on which no slip system can be activated) would pass
    C01 and only show up in C03."""
    from . import C03

    if phase is None:
        return C03.t_spin_contract(sess)
    return C03.t_kernel(sess, phase, fabric, glue_only=True)


REGIMES = ("matrix_dislocation", "frictional_yielding", "matrix_diffusion", "min_viscosity", "max_viscosity")


def valid_claims(A, f, N):
    cl = []
    tot = R(0)
    for x in np.asarray(f, dtype=object).flat:
        cl.append((R(x) >= 0).z3())
        tot = tot + x
    cl.append(eq(tot, 1))
    for a in np.asarray(A, dtype=object).flat:
        cl.append(z3.And((R(a) >= -1).z3(), (R(a) <= 1).z3()))
    return cl


def t_extract_vars(sess, n_grains):
    utils = pydrex_modules()["utils"]
    sess.encode(utils.extract_vars)
    N = n_grains
    sess.bounds[f"extract_vars[N={N}]"] = "arbitrary real state vector y of length 10N+9 with positive clipped volume sum"

    def fn():
        y = quat.symvec("y", 10 * N + 9)
        tot = R(0)
        for i in range(9 + 9 * N, 9 + 10 * N):
            tot = tot + rmax(y[i], 0)
        sym.ctx().assume((tot > 0).z3())
        y0 = y.view(np.ndarray).copy()
        return y0, y, utils.extract_vars(y, N)

    with np_installed(utils):
        paths, info = sym.explore(fn)
    p = main_path(sess, paths, f"extract_vars[N={N}]")
    if p is None:
        return
    y0, y, (Fm, A, f) = p.value
    tag = f"extract_vars[N={N}]"
    for ob in p.obligations:
        sess.prove(f"{tag}: {ob.kind} cannot happen at `{(ob.site or ('', '?'))[1]}`", ob.pc, ob.cond)
    sess.satisfiable(f"{tag}: reach (a negative volume and an out-of-range entry)", p.pc + [(R(y0[9 + 9 * N]) < 0).z3(), (R(y0[9]) > 1).z3()] if N > 1 else p.pc)
    sess.prove(f"{tag}: output shapes", p.pc, z3.BoolVal(Fm.shape == (3, 3) and A.shape == (N, 3, 3) and f.shape == (N,)))
    sess.prove(f"{tag}: F = y[:9] row-major", p.pc, all_eq(Fm.reshape(-1), y0[:9]))
    sess.prove(f"{tag}: orientations = clip(y, -1, 1) row-major per grain", p.pc,
               all_eq(A.reshape(-1), [rmin(rmax(v, -1), 1) for v in y0[9 : 9 + 9 * N]]))
    for c in valid_claims(A, f, N)[: N + 1]:
        pass
    sess.prove(f"{tag}: fractions non-negative, sum to 1; orientation entries in [-1, 1]", p.pc, z3.And(*valid_claims(A, f, N)))
    cl = []
    tot = sum((rmax(v, 0) for v in y0[9 + 9 * N :]), R(0))
    for i in range(N):
        cl.append(eq(f[i] * tot, rmax(y0[9 + 9 * N + i], 0)))
    sess.prove(f"{tag}: fractions = clipped volumes / their sum (floor first, then renormalise)", p.pc, z3.And(*cl))
    sess.prove(f"{tag}: the caller's state vector is not modified", p.pc, all_eq(y, y0))
    sample(sess, obligation="extract_vars", N=N, f0=str(f[0])[:200])


def t_step(sess, n_grains, steps, regime="matrix_dislocation"):
    mods = pydrex_modules()
    minerals, utils = mods["minerals"], mods["utils"]
    sess.encode(minerals.Mineral.update_orientations, utils.extract_vars, utils.apply_gbs)
    N = n_grains
    sess.bounds[f"step[N={N},k={steps}]"] = f"history of 2 arbitrary valid snapshots, {steps} solver step(s) with arbitrary finite state after each, symbolic parameters"
    sess.assume_env("LSODA contract: after each step y is an arbitrary finite vector whose clipped volume block has positive sum; rhs evaluated at the start of every step")
    sess.outside_claim("size of the orthonormality / right-handedness drift (5e-3 + 1e-3 (N + 2 strain)): LSODA's accumulated error; its first-order mechanism (rates tangent to SO(3)) is decided for every accepted regime in t_rate_tangent")
    sess.outside_claim("that scipy's Rotation.random returns proper rotations deterministically for a seed (its contract); the plumbing of seed and grain count into it is decided in t_seed_plumbing")
    log, dlog = [], []
    plan = stubs.LsodaPlan(steps=steps, n_grains=N, eval_rhs_each_step=True)

    def fn():
        log.clear()
        dlog.clear()
        from .kernel import enums

        m, snaps = mh.make_mineral(N, history=2, regime=getattr(enums()[2], regime))
        mh.assume_valid(snaps)
        params = mh.sym_params(N)
        L = quat.symmat("L")
        ids = [id(a) for a in m.orientations] + [id(a) for a in m.fractions]
        before = [a.view(np.ndarray).copy() for a in m.orientations] + [a.view(np.ndarray).copy() for a in m.fractions]
        Fin = quat.symmat("F")
        Fin0 = Fin.view(np.ndarray).copy()
        Fm = m.update_orientations(params, Fin, lambda t, x: L, (real("t0"), real("t1"), lambda t: sarr(np.zeros(3))))
        return m, ids, before, Fm, Fin, Fin0, log[0]

    with mh.env(plan, log, derivatives=mh.deriv_stub_factory(dlog, N)):
        paths, info = sym.explore(fn, max_paths=64)
    tag = f"step[N={N},k={steps},{regime}]"
    sess.paths[tag] = {"paths": len(paths), "runs": info["runs"]}
    if info["truncated"]:
        sess.truncated = True
    reached = False
    for k, p in enumerate(paths):
        pt = f"{tag} path {k}"
        if p.exc is not None:
            sess.prove(f"{pt}: update raises {type(p.exc).__name__}: {str(p.exc)[:60]}", p.pc, z3.BoolVal(False))
            continue
        for ob in p.obligations:
            sess.prove(f"{pt}: {ob.kind} cannot happen at `{(ob.site or ('', '?'))[1]}`", ob.pc, ob.cond)
        m, ids, before, Fm, Fin, Fin0, solver = p.value
        if not reached:
            reached = True
            sess.satisfiable(f"{tag}: reach", p.pc)
        sess.prove(f"{pt}: exactly one snapshot appended to each list", p.pc, z3.BoolVal(len(m.orientations) == 3 and len(m.fractions) == 3))
        same_obj = all(id(a) == i for a, i in zip(m.orientations[:2] + m.fractions[:2], ids))
        sess.prove(f"{pt}: earlier snapshots are the same array objects", p.pc, z3.BoolVal(same_obj))
        cells = [all_eq(a, b) for a, b in zip(m.orientations[:2] + m.fractions[:2], before)]
        sess.prove(f"{pt}: every cell of every earlier snapshot is unchanged", p.pc, z3.And(*cells))
        newA, newf = m.orientations[-1], m.fractions[-1]
        alias = any(np.shares_memory(newA, a) for a in m.orientations[:2]) or any(np.shares_memory(newf, a) for a in m.fractions[:2]) \
            or np.shares_memory(newA, solver.y) or np.shares_memory(newf, solver.y)
        sess.prove(f"{pt}: the new snapshot aliases neither an earlier snapshot nor the solver's state vector", p.pc, z3.BoolVal(not alias))
        sess.prove(f"{pt}: new snapshot has shapes (N,3,3) and (N,)", p.pc, z3.BoolVal(newA.shape == (N, 3, 3) and newf.shape == (N,)))
        sess.prove(f"{pt}: new snapshot is valid (f >= 0, sum f = 1, entries in [-1,1])", p.pc, z3.And(*valid_claims(newA, newf, N)))
        sess.prove(f"{pt}: the caller's deformation gradient is not modified", p.pc, all_eq(Fin, Fin0))
    if not reached:
        sess.reach.append(type("Q", (), {"name": f"{tag}: reach", "verdict": "unknown", "secs": 0.0})())
    sample(sess, obligation="inductive step", N=N, steps=steps, paths=len(paths))


def t_rhs_pure(sess, n_grains):
    """Evaluating the right-hand side (real derivatives, real kernel stubbed) never writes to the
    stored history or to the state vector it is given."""
    mods = pydrex_modules()
    minerals, core = mods["minerals"], mods["core"]
    sess.encode(minerals.Mineral.update_orientations, core.derivatives)
    N = n_grains
    log = []
    plan = stubs.LsodaPlan(steps=1, n_grains=N, eval_rhs_each_step=False)

    def kstub(*a):
        k = len(kcalls)
        kcalls.append(a)
        return quat.symmat(f"k{k % N}_"), real(f"kE{k % N}")

    kcalls = []

    def fn():
        log.clear()
        kcalls.clear()
        m, snaps = mh.make_mineral(N, history=2)
        mh.assume_valid(snaps)
        params = mh.sym_params(N)
        L = quat.symmat("L")
        before = [a.view(np.ndarray).copy() for a in m.orientations] + [a.view(np.ndarray).copy() for a in m.fractions]
        m.update_orientations(params, quat.symmat("F"), lambda t, x: L, (real("t0"), real("t1"), lambda t: sarr(np.zeros(3))))
        solver = log[0]
        y = quat.symvec("yy", 10 * N + 9)
        tot = R(0)
        for i in range(9 + 9 * N, 9 + 10 * N):
            tot = tot + rmax(y[i], 0)
        sym.ctx().assume((tot > 0).z3())
        y0 = y.view(np.ndarray).copy()
        hist = [a.view(np.ndarray).copy() for a in m.orientations] + [a.view(np.ndarray).copy() for a in m.fractions]
        r1 = solver.fun(real("t"), y)
        r2 = solver.fun(real("t"), y)
        after = [a.view(np.ndarray).copy() for a in m.orientations] + [a.view(np.ndarray).copy() for a in m.fractions]
        return y, y0, hist, after, r1, r2

    from ..sarr import patched

    with mh.env(plan, log, extra=[(core, "_get_rotation_and_strain", kstub)]):
        paths, info = sym.explore(fn, max_paths=64)
    tag = f"rhs purity[N={N}]"
    sess.paths[tag] = {"paths": len(paths)}
    ok = 0
    for k, p in enumerate(paths):
        if p.exc is not None:
            sess.prove(f"{tag} path {k}: raises {type(p.exc).__name__}: {str(p.exc)[:60]}", p.pc, z3.BoolVal(False))
            continue
        y, y0, hist, after, r1, r2 = p.value
        ok += 1
        sess.prove(f"{tag} path {k}: rhs does not modify the state vector it is given", p.pc, all_eq(y, y0))
        sess.prove(f"{tag} path {k}: rhs does not modify any stored snapshot", p.pc, z3.And(*[all_eq(a, b) for a, b in zip(after, hist)]))
        sess.prove(f"{tag} path {k}: rhs is a function of (t, y): two evaluations agree", p.pc, all_eq(r1, r2))
    sess.satisfiable(f"{tag}: reach", paths[0].pc)


def t_rate_tangent(sess, n_grains, regime):
    """First-order mechanism behind "orientations remain orthonormal to within the ODE tolerance", for EVERY accepted
    regime: at any state whose orientation block holds rotations, the orientation rates returned by the real
    right-hand side (real eval_rhs, real core.derivatives) satisfy  dA_g A_g^T + A_g dA_g^T = 0, i.e. they are
    tangent to SO(3).  In the dislocation-type regimes the grain kernel is replaced by its contract dA = A.S with S
    skew (decided on the real kernel by C03 `t_spin_contract`), so this task decides what derivatives/eval_rhs do
    with it (damping, re-dimensionalisation); in the other regimes nothing is stubbed but LSODA, eigvalsh and the
    polar decomposition (an arbitrary deterministic function of its argument)."""
    from .. import poly

    mods = pydrex_modules()
    minerals, core = mods["minerals"], mods["core"]
    sess.encode(minerals.Mineral.update_orientations, core.derivatives, mods["utils"].extract_vars)
    N = n_grains
    sess.bounds["rate tangent"] = f"n_grains = {N}; all rotations A_g = R(q_g); arbitrary F, velocity gradient, volumes on the simplex, parameters in range"
    sess.outside_claim("the size of the accumulated drift (5e-3 + 1e-3 (N + 2 strain)) is LSODA's error control; decided here: the exact flow stays on SO(3) (rates tangent)")
    log, kcalls = [], []
    plan = stubs.LsodaPlan(steps=1, n_grains=N)
    Rg = core.DeformationRegime

    def kstub(phase_, fabric_, orientation, *a):
        g = len(kcalls) % N
        kcalls.append(a)
        s1, s2, s3 = real(f"sp{g}_1"), real(f"sp{g}_2"), real(f"sp{g}_3")
        S = sarr(np.array([[R(0), s1, s2], [-s1, R(0), s3], [-s2, -s3, R(0)]], dtype=object))
        return orientation @ S, real(f"kE{g}")

    def fn():
        log.clear()
        kcalls.clear()
        c = sym.ctx()
        A, f = mh.sym_snapshot("s", N)
        qs, rots = [], []
        tot = R(0)
        for x in f.flat:
            c.assume((x >= 0).z3())
            tot = tot + x
        c.assume((tot == 1).z3())
        for g in range(N):
            q, unit = quat.quat(f"q{g}")
            c.assume(unit)
            Rm = quat.rotmat(q)
            qs.append(q)
            rots.append(Rm)
            for i in range(3):
                for j in range(3):
                    c.assume((A[g, i, j] == Rm[i, j]).z3())
                    c.assume(z3.And((A[g, i, j] >= -1).z3(), (A[g, i, j] <= 1).z3()))  # entries of a rotation matrix
        params = mh.sym_params(N)
        L = quat.symmat("L")
        Fm = quat.symmat("F")
        m = minerals.Mineral(regime=getattr(Rg, regime), n_grains=N, fractions_init=f.copy(), orientations_init=A.copy())
        m.update_orientations(params, Fm, lambda t, x: L, (real("t0"), real("t1"), lambda t: sarr(np.zeros(3))))
        solver = log[0]
        y = np.asarray(solver.y0_arg, dtype=object)
        r = solver.fun(real("t"), sarr(y.copy()))
        return A, qs, rots, np.asarray(r, dtype=object)

    with mh.env(plan, log, extra=[(core, "_get_rotation_and_strain", kstub)]):
        paths, info = sym.explore(fn, max_paths=64)
    tag = f"rate tangent[{regime}/N={N}]"
    sess.paths[tag] = {"paths": len(paths)}
    if info["truncated"]:
        sess.truncated = True
    bad = None
    for pi, p in enumerate(paths[:8]):
        pt = f"{tag} path {pi}"
        if p.exc is not None:
            sess.prove(f"{pt}: raises {type(p.exc).__name__}: {str(p.exc)[:60]}", p.pc, z3.BoolVal(False))
            continue
        A, qs, rots, r = p.value
        rules = poly.Rules()
        for g in range(N):
            rules.unit_quat(qs[g])
            for i in range(3):
                for j in range(3):
                    rules.alias(A[g, i, j], rots[g][i, j])
        dA = r[9:9 + 9 * N].reshape(N, 3, 3)
        for g in range(N):
            Ag, dAg = sarr(np.asarray(rots[g], dtype=object)), sarr(dA[g])
            lhs = dAg @ Ag.transpose() + Ag @ dAg.transpose()
            name = f"{pt}: grain {g}: dA A^T + A dA^T = 0 (orientation rate tangent to SO(3))"
            q = sess.prove_nf(name, p.pc, rules, lhs, sarr(np.full((3, 3), R(0), dtype=object)), resolve_ifs=True)
            if not q.holds:
                ce = {"name": name, "case": {"regime": regime}, "cls": {"kind": "orientation rate not tangent to SO(3): orthonormality is lost at first order", "regime": regime}}
                if bad is None:
                    bad = name
                    ce["replay"] = "vf.props.C01:replay_drift"
                else:
                    ce["same_as"] = bad
                sess.cex.append(ce)
    if len(paths) > 8:
        sess.truncated = True
    sess.satisfiable(f"{tag}: reach", paths[0].pc if paths else [z3.BoolVal(False)])
    sample(sess, obligation="rate tangent", regime=regime, paths=len(paths))


def replay_drift(case):
    """Real updates (JIT on, real LSODA) in the given regime: simple shear and a general 3-D flow, 5 updates each,
    against the drift bound of the property statement, max|A A^T - I| <= 5e-3 + 1e-3 (N + 2 strain)."""
    import numpy as np
    import pydrex
    from pydrex import core

    regime = getattr(core.DeformationRegime, case["regime"])
    problems = []
    flows = {"simple shear": np.array([[0, 0, 2.0], [0, 0, 0], [0, 0, 0]]),
             "general 3-D": np.array([[0.6, 1.1, -0.4], [-0.9, -0.2, 0.7], [0.3, -1.2, -0.4]])}
    for label, L in flows.items():
        m = pydrex.Mineral(regime=regime, n_grains=40, seed=3)
        params = core.DefaultParams().as_dict()
        params["number_of_grains"] = 40
        rate = np.abs(np.linalg.eigvalsh((L + L.T) / 2)).max()
        Fm = np.eye(3)
        for k in range(5):
            Fm = m.update_orientations(params, Fm, lambda t, x: L, (k * 0.1, (k + 1) * 0.1, lambda t: np.zeros(3)))
            A = m.orientations[-1]
            drift = float(np.abs(np.einsum("gij,gkj->gik", A, A) - np.eye(3)).max())
            bound = 5e-3 + 1e-3 * ((k + 1) + 2 * rate * (k + 1) * 0.1)
            if not drift <= bound or np.linalg.det(A).min() <= 0:
                problems.append(f"{case['regime']}, {label}: after {k + 1} update(s) max|A A^T - I| = {drift:.3g} > {bound:.3g} (min det {np.linalg.det(A).min():.3f})")
                break
    return {"reproduced": bool(problems), "detail": problems or "orientations stay within the stated drift bound"}


def replay_noslip_drift(case):
    """Real updates (JIT on, real LSODA) of textures in which grains have no resolvable slip -- every grain under a
    rigid rotation, axis-aligned single-orientation textures under shear and compression along the coordinate axes --
    for every fabric and both dislocation-type regimes, against the drift bound of the property statement."""
    import numpy as np
    import pydrex
    from pydrex import core

    problems = []
    W = np.array([[0.0, 1.0, -0.6], [-1.0, 0.0, 0.8], [0.6, -0.8, 0.0]])
    flows = {"rigid rotation": W, "rotation then shear": None, "yz shear": np.array([[0, 0, 0], [0, 0, 2.0], [0, 0, 0]]),
             "xy shear": np.array([[0, 2.0, 0], [0, 0, 0], [0, 0, 0]]), "xz shear + spin": np.array([[0, 0, 2.0], [0, 0, 0], [0, 0, 0]]) + 0.5 * W,
             "axial compression + spin": np.diag([0.5, 0.5, -1.0]) + W}
    shear = np.array([[0, 0, 2.0], [0, 0, 0], [0, 0, 0]])
    fabrics = [(core.MineralPhase.olivine, f) for f in "ABCDE"] + [(core.MineralPhase.enstatite, "AB")]
    for (phase, fl), regime, (label, L) in __import__("itertools").product(fabrics, ("matrix_dislocation", "frictional_yielding"), flows.items()):
        fabric = getattr(core.MineralFabric, ("olivine_" if phase == core.MineralPhase.olivine else "enstatite_") + fl)
        for texture in ("random", "aligned"):
            n = 16
            kw = {} if texture == "random" else {"orientations_init": np.stack([np.eye(3)] * n)}
            m = pydrex.Mineral(phase=phase, fabric=fabric, regime=getattr(core.DeformationRegime, regime), n_grains=n, seed=5, **kw)
            params = core.DefaultParams().as_dict()
            params["number_of_grains"] = n
            if phase == core.MineralPhase.enstatite:
                params["phase_assemblage"], params["phase_fractions"] = (core.MineralPhase.enstatite,), (1.0,)
            Fm, strain = np.eye(3), 0.0
            for k in range(3):
                Lk = (W if k < 2 else shear) if L is None else L
                try:
                    Fm = m.update_orientations(params, Fm, lambda t, x: Lk, (k * 0.2, (k + 1) * 0.2, lambda t: np.zeros(3)))
                except Exception as e:  # noqa: BLE001 - valid inputs: an exception from pydrex is a failure of the property
                    problems.append(f"{phase.name} {fl}, {regime}, {label}, {texture}: update {k + 1} raised {type(e).__name__}: {e}")
                    break
                strain += 0.2 * np.abs(np.linalg.eigvalsh((Lk + Lk.T) / 2)).max()
                A = m.orientations[-1]
                drift = float(np.abs(np.einsum("gij,gkj->gik", A, A) - np.eye(3)).max())
                bound = 5e-3 + 1e-3 * ((k + 1) + 2 * strain)
                if not drift <= bound or not np.all(np.isfinite(A)) or np.linalg.det(A).min() <= 0:
                    problems.append(f"{phase.name} {fl}, {regime}, {label}, {texture} texture: after {k + 1} update(s) max|A A^T - I| = {drift:.3g} > {bound:.3g}")
                    break
        if len(problems) >= 6:
            break
    return {"reproduced": bool(problems), "detail": problems or "orientations stay within the stated drift bound (textures with grains that cannot slip)"}


def default_cex(name):
    """Generic public-API replay for verdicts that carry no more specific counterexample."""
    if "returned rate is 0 or the spin routine" in name or "spin contract" in name or "kernel raises" in name:
        return {"replay": "vf.props.C01:replay_noslip_drift", "case": {}, "cls": {"kind": "grain kernel rate is not the grain's orientation composed with a skew spin"}}
    return {"replay": "vf.props.replays:c01_history", "case": {}, "cls": {"kind": "stored snapshot invalid or altered"}}


def t_initial_snapshot(sess):
    """Default-constructed minerals (scipy Rotation.random, no quantified input besides seed and size): observed,
    not decided -- a handful of (n_grains, seed) pairs through the real constructor."""
    from .. import framework

    res = framework.replay_cases([{"replay": "vf.props.C01:replay_initial", "case": {}}])[0]
    sess.outside_claim("validity / seed-reproducibility of the default initial snapshot is sampled (reported in notes), not decided by the solver")
    sess.notes.append(f"initial snapshot (sampled): {res.get('detail')}")
    ok = res.get("reproduced") is False
    q = sess.prove("sampled: default initial snapshots are valid textures and reproducible from their seed", [], z3.BoolVal(ok), tags={"sampled": True})
    if not ok:
        sess.cex.append({"name": q.name, "replay": "vf.props.C01:replay_initial", "case": {}, "cls": {"kind": "initial snapshot invalid or not reproducible"}})
    sess.satisfiable("initial snapshot: reach", [])


def t_seed_plumbing(sess):
    """The seed (a symbolic integer, or None) and the grain count reach scipy's Rotation.random unchanged, the
    generated matrices become the first stored snapshot, and the default volumes are 1/n each: the initial
    snapshot is a function of (n_grains, seed) only.  Rotation.random itself is a stub (outside the claim)."""
    minerals = pydrex_modules()["minerals"]
    real_rotation = minerals.Rotation

    class Spy:
        calls = []

        def __init__(self, mats):
            self.mats = mats

        @classmethod
        def random(cls, num=None, random_state="unset", **kw):
            cls.calls.append((num, random_state, kw))
            return cls(np.stack([np.eye(3)] * int(num)))

        def as_matrix(self):
            return self.mats

    sess.outside_claim("scipy's Rotation.random is replaced by a recording stub: that it returns proper rotations and is deterministic for a fixed seed is scipy's contract")
    for n in (1, 3):
        for label in ("symbolic int", "None"):
            def fn():
                sd = sym.symint("seed") if label == "symbolic int" else None
                Spy.calls = []
                m = minerals.Mineral(n_grains=n, seed=sd)
                return sd, list(Spy.calls), m

            minerals.Rotation = Spy
            try:
                paths, _ = sym.explore(fn)
            finally:
                minerals.Rotation = real_rotation
            tag = f"seed plumbing[n={n}, seed {label}]"
            sess.paths[tag] = {"paths": len(paths)}
            for pi, p in enumerate(paths):
                pt = f"{tag} path {pi}"
                if p.exc is not None:
                    sess.prove(f"{pt}: raises {type(p.exc).__name__}: {str(p.exc)[:60]}", p.pc, z3.BoolVal(False))
                    continue
                sd, calls, m = p.value
                good = (len(calls) == 1 and calls[0][0] == n and calls[0][1] is sd and not calls[0][2]
                        and len(m.orientations) == 1 and len(m.fractions) == 1 and m.orientations[0] is not None
                        and np.array_equal(np.asarray(m.orientations[0], dtype=float), np.stack([np.eye(3)] * n))
                        and np.array_equal(np.asarray(m.fractions[0], dtype=float), np.full(n, 1.0 / n)))
                q = sess.prove(f"{pt}: Rotation.random called once with (n_grains, the caller's seed object); its matrices and uniform volumes are the stored initial snapshot", p.pc, z3.BoolVal(good))
                if not q.holds:
                    sess.cex.append({"name": q.name, "replay": "vf.props.C01:replay_initial", "case": {}, "cls": {"kind": "initial snapshot invalid or not reproducible"}})
            sess.satisfiable(f"{tag}: reach", paths[0].pc if paths else [z3.BoolVal(False)])


def replay_initial(case):
    import numpy as np
    import pydrex

    problems = []
    for n, seed in ((2, 0), (7, 1), (64, 12345), (500, 8)):
        a, b = pydrex.Mineral(n_grains=n, seed=seed), pydrex.Mineral(n_grains=n, seed=seed)
        A, f = a.orientations[0], a.fractions[0]
        if len(a.orientations) != 1 or len(a.fractions) != 1 or A.shape != (n, 3, 3) or f.shape != (n,):
            problems.append(f"n={n}: wrong shapes")
            continue
        if not (np.array_equal(A, b.orientations[0]) and np.array_equal(f, b.fractions[0])):
            problems.append(f"n={n}, seed={seed}: not reproducible")
        if not (np.allclose(f.sum(), 1) and f.min() >= 0 and np.allclose(np.einsum("gij,gkj->gik", A, A), np.eye(3), atol=1e-12) and np.all(np.linalg.det(A) > 0)):
            problems.append(f"n={n}: initial snapshot is not a valid texture")
    return {"reproduced": bool(problems), "detail": problems or "4 (n_grains, seed) pairs valid and reproducible"}
