"""C04 -- frame indifference and crystal-symmetry invariance of rates and textures.

Staged along the real call graph (assume-guarantee): every real helper of the grain kernel is
executed on free symbolic arguments and on the transformed arguments (frame rotation Q = R(r),
|r| = 1; lattice two-fold S acting on rows) and the transformation law of its result is decided.
The kernel's wiring of the stages is decided in C02 (t_glue, re-run here); the right-hand side of
the real update is then compared for (L, F, A) and (Q L Q^T, Q F, A Q^T) with the kernel replaced by
its proved contract. Hence the exact flows are related by Q (ODE uniqueness), for every partition.
"""

from __future__ import annotations

import itertools as it

import numpy as np
import z3

from .. import poly, quat, stubs, sym
from ..ref import drex as ref
from ..sarr import SArr, patched, sarr
from ..sym import R, real, rmax
from . import kernel
from . import mineral_h as mh
from .C05 import uf_field
from .common import all_eq, eq, np_installed, pydrex_modules, sample, only_path

TIMEOUT_MS = {"quick": 90000, "thorough": 300000}
INF = float("inf")
TWOFOLDS = {"2-fold about a": (1, -1, -1), "2-fold about b": (-1, 1, -1), "2-fold about c": (-1, -1, 1)}


def tasks(tier):
    t = [("t_invariants", {}), ("t_slip_rates", {}), ("t_schmid", {}), ("t_softest", {}), ("t_spin", {}), ("t_energy", {})]
    t += [("t_glue", {"phase": ph, "fabric": fb}) for ph, fb in (kernel.FABRICS if tier == "thorough" else [kernel.FABRICS[0], kernel.FABRICS[2], kernel.FABRICS[5]])]
    t += [("t_rhs", {"n_grains": n, "regime": rg}) for rg in ("matrix_dislocation", "frictional_yielding") for n in ((1,) if tier == "quick" else (2, 3))]
    return t


def _Q(prefix="r"):
    r, unit = quat.quat(prefix)
    sym.ctx().assume(unit)
    return r, quat.rotmat(r)


def _lists(a):
    return [[a[i, j] for j in range(3)] for i in range(3)]


def sigma_of(S):
    """Sign picked up by each slip invariant when crystal axis k is flipped by S[k]."""
    return [S[nrm] * S[drc] for nrm, drc in ref.SLIP_SYSTEMS]


def t_invariants(sess):
    core = pydrex_modules()["core"]
    sess.encode(core._get_slip_invariants)

    def fn():
        r, Q = _Q()
        D, A = quat.symmat("D"), quat.symmat("A")
        base = core._get_slip_invariants(D, A)
        rot = core._get_slip_invariants(Q @ D @ Q.transpose(), A @ Q.transpose())
        flips = {}
        for name, S in TWOFOLDS.items():
            SA = sarr(np.diag(S)) @ A
            flips[name] = core._get_slip_invariants(D, SA)
        return r, base, rot, flips

    with np_installed(core):
        paths, _ = sym.explore(fn)
    p = only_path(sess, paths)
    r, base, rot, flips = p.value
    rules = poly.Rules().unit_quat(r)
    sess.satisfiable("invariants: reach", p.pc)
    sess.prove_nf("invariants(Q D Q^T, A Q^T) = invariants(D, A) for every proper rotation Q", p.pc, rules, rot, base)
    for name, S in TWOFOLDS.items():
        sg = sigma_of(S)
        sess.prove(f"invariants(D, S A) = sigma_s I_s for the {name} (sigma = {sg})", p.pc, all_eq(flips[name], [sg[s] * base[s] for s in range(4)]))
    sample(sess, obligation="frame indifference of slip invariants", I0_rotated=str(rot[0])[:200])


def t_slip_rates(sess):
    """I_s -> sigma_s I_s (any sign vector): same activity ranking, gamma_s -> sigma_s sigma_max gamma_s."""
    core = pydrex_modules()["core"]
    sess.encode(core._get_slip_rates_olivine)
    count = 0
    for fabric in ("olivine_A", "olivine_B", "olivine_C", "olivine_D", "olivine_E"):
        tau = ref.CRSS[("olivine", fabric)]
        for perm in it.permutations(range(4)):
            i_inac, i_min, i_int, i_max = perm
            if tau[i_max] == INF:
                continue

            def fn():
                I = quat.symvec("I", 4)
                sg = quat.symvec("sg", 4)
                n = real("n")
                c = sym.ctx()
                c.assume(z3.And((n >= 2).z3(), (n <= 5).z3(), (I[i_max] != 0).z3()))
                for s in sg:
                    c.assume(z3.Or((s == 1).z3(), (s == -1).z3()))
                crss = sarr(np.array(tau, dtype=float))
                g = core._get_slip_rates_olivine(I, np.array(perm), crss, n)
                I2 = sarr(np.array([sg[k] * I[k] for k in range(4)], dtype=object))
                g2 = core._get_slip_rates_olivine(I2, np.array(perm), crss, n)
                act = [abs(I[k] / tau[k]) for k in range(4)]
                act2 = [abs(I2[k] / tau[k]) for k in range(4)]
                return sg, g, g2, act, act2

            with np_installed(core):
                paths, _ = sym.explore(fn)
            p = only_path(sess, paths)
            sg, g, g2, act, act2 = p.value
            want = [sg[k] * sg[i_max] * g[k] for k in range(4)]
            want[i_max] = R(1)
            sess.prove(f"slip rates[{fabric}] order {perm}: flipped invariants give gamma_s -> sigma_s sigma_max gamma_s", p.pc, all_eq(g2, want))
            if count == 0:
                sess.satisfiable("slip rates: reach", p.pc + [(sg[0] == -1).z3()])
                sess.prove("activities |I_s / tau_s| are unchanged by the sign flips (same ranking)", p.pc, all_eq(act2, act))
            count += 1
    sess.paths["slip_rates"] = {"fabric x order combinations": count}


def t_schmid(sess):
    core = pydrex_modules()["core"]
    P, F, _ = kernel.enums()
    sess.encode(core._get_deformation_rate)

    def fn():
        r, Q = _Q()
        A, g = quat.symmat("A"), quat.symvec("gs", 4)
        G = core._get_deformation_rate(P.olivine, A, g)
        Grot = core._get_deformation_rate(P.olivine, A @ Q.transpose(), g)
        flips = {}
        for name, S in TWOFOLDS.items():
            sg = sigma_of(S)
            for imax in range(4):
                g2 = sarr(np.array([sg[k] * sg[imax] * g[k] for k in range(4)], dtype=object))
                flips[(name, imax)] = (core._get_deformation_rate(P.olivine, sarr(np.diag(S)) @ A, g2), sg[imax])
        return r, Q, G, Grot, flips

    with np_installed(core):
        paths, _ = sym.explore(fn)
    p = only_path(sess, paths)
    r, Q, G, Grot, flips = p.value
    rules = poly.Rules().unit_quat(r)
    sess.satisfiable("schmid: reach", p.pc)
    sess.prove_nf("G(A Q^T, gamma) = Q G(A, gamma) Q^T", p.pc, rules, Grot, Q @ G @ Q.transpose())
    for (name, imax), (G2, s) in flips.items():
        sess.prove(f"G(S A, sigma sigma_max gamma) = sigma_max G(A, gamma) [{name}, most active system {imax}]", p.pc, all_eq(G2, s * G))


def _g0_ref(G, L):
    """Characterisation of the real _get_slip_rate_softest proved in t_softest (and C02)."""
    Gl, Ll = _lists(G), _lists(L)
    return 2 * ref.sym_inner(Gl, Ll), 2 * ref.sym_inner(Gl, Gl)


def t_softest(sess):
    core = pydrex_modules()["core"]
    sess.encode(core._get_slip_rate_softest)
    # (i) the real function = reference characterisation, for all G, L (as in C02)
    from . import C02

    C02.t_softest(sess)

    # (ii) numerator and denominator of the characterisation are frame invariant / flip covariant
    def fn():
        r, Q = _Q()
        G, L = quat.symmat("G"), quat.symmat("L")
        s = real("s")
        sym.ctx().assume(z3.Or((s == 1).z3(), (s == -1).z3()))
        n1, d1 = _g0_ref(G, L)
        n2, d2 = _g0_ref(Q @ G @ Q.transpose(), Q @ L @ Q.transpose())
        n3, d3 = _g0_ref(s * G, L)
        return r, s, (n1, d1), (n2, d2), (n3, d3)

    paths, _ = sym.explore(fn)
    p = only_path(sess, paths)
    r, s, (n1, d1), (n2, d2), (n3, d3) = p.value
    rules = poly.Rules().unit_quat(r).sign(s)
    sess.prove_nf("softest: <symG,symL> and <symG,symG> unchanged by G -> Q G Q^T, L -> Q L Q^T (so gamma0 and its 1e-15 guard are unchanged)", p.pc, rules, [n2, d2], [n1, d1])
    sess.prove_nf("softest: G -> sigma G gives numerator -> sigma numerator, same denominator (gamma0 -> sigma gamma0, same guard)", p.pc, rules, [n3, d3], [s * n1, d1])


def t_spin(sess):
    core = pydrex_modules()["core"]
    sess.encode(core._get_orientation_change)

    def fn():
        r, Q = _Q()
        A, L, G, g0 = quat.symmat("A"), quat.symmat("L"), quat.symmat("G"), real("gam0")
        s = real("s")
        sym.ctx().assume(z3.Or((s == 1).z3(), (s == -1).z3()))
        dA = core._get_orientation_change(A, L, G, g0)
        Qt = Q.transpose()
        dArot = core._get_orientation_change(A @ Qt, Q @ L @ Qt, Q @ G @ Qt, g0)
        flips = {name: core._get_orientation_change(sarr(np.diag(S)) @ A, L, s * G, s * g0) for name, S in TWOFOLDS.items()}
        return r, s, Q, dA, dArot, flips

    with np_installed(core):
        paths, _ = sym.explore(fn)
    p = only_path(sess, paths)
    r, s, Q, dA, dArot, flips = p.value
    rules = poly.Rules().unit_quat(r).sign(s)
    sess.satisfiable("spin: reach", p.pc)
    sess.prove_nf("orientation rate(A Q^T, Q L Q^T, Q G Q^T, gamma0) = rate(A, L, G, gamma0) Q^T", p.pc, rules, dArot, dA @ Q.transpose())
    for name, S in TWOFOLDS.items():
        sess.prove_nf(f"orientation rate(S A, L, sigma G, sigma gamma0) = S rate(A, L, G, gamma0) [{name}]", p.pc, rules, flips[name], sarr(np.diag(S)) @ dA)


def t_energy(sess):
    core = pydrex_modules()["core"]
    sess.encode(core._get_strain_energy)
    for (ph, fb), tau in ref.CRSS.items():
        def fn():
            g = quat.symvec("gs", 4)
            sg = quat.symvec("sg", 4)
            s = real("s")
            g0 = real("gam0")
            p, n, lam, _ = kernel.param_symbols()
            c = sym.ctx()
            for x in list(sg) + [s]:
                c.assume(z3.Or((x == 1).z3(), (x == -1).z3()))
            for k in range(4):  # slip rates of infinite-CRSS systems are 0 (t_slip_rates / enstatite branch of the kernel)
                if tau[k] == INF:
                    c.assume((g[k] == 0).z3())
            crss = sarr(np.array(tau, dtype=float))
            idx = np.array([0, 1, 2, 3])
            E = core._get_strain_energy(crss, g, idx, g0, p, n, lam)
            g2 = sarr(np.array([sg[k] * g[k] for k in range(4)], dtype=object))
            E2 = core._get_strain_energy(crss, g2, idx, s * g0, p, n, lam)
            return E, E2

        with np_installed(core):
            paths, _ = sym.explore(fn)
        p = only_path(sess, paths)
        E, E2 = p.value
        sess.prove(f"strain energy[{fb}] depends on |gamma_s gamma0| only: unchanged by arbitrary sign flips of the slip rates and of gamma0", p.pc, eq(E, E2))
    sess.satisfiable("energy: reach", p.pc)


def t_glue(sess, phase, fabric):
    from . import C02

    C02.t_glue(sess, phase, fabric)


def t_rhs(sess, n_grains, regime):
    """Real update / real derivatives, grain kernel replaced by its proved contract
    K(A Q^T, Q D Q^T, Q L Q^T) = (K_dA(A, D, L) Q^T, K_E(A, D, L)):
    rhs[Q L Q^T](t, (Q F, A Q^T, f)) = (Q dF, dA Q^T, df)."""
    mods = pydrex_modules()
    minerals, core = mods["minerals"], mods["core"]
    P, F, Rg = kernel.enums()
    N = n_grains
    sess.encode(minerals.Mineral.update_orientations, core.derivatives, mods["utils"].extract_vars)
    sess.bounds["rhs"] = f"n_grains = {N}; Q = R(r) for all unit quaternions r; arbitrary state (F, A_i, f) and velocity gradient field"
    sess.assume_env("max |eigenvalue| is invariant under D -> Q D Q^T")
    sess.outside_claim("LSODA's element-wise atol and step-size control are not frame invariant: 'within solver tolerance' for integrated textures follows for the exact flow only")
    log, klog = [], []
    plan = stubs.LsodaPlan(steps=1, n_grains=N)
    Lf = uf_field("Lf", (3, 3))
    holder = {}

    def kstub(phase_, fabric_, orientation, strain_rate, velocity_gradient, p_, n_, lam_):
        g = len(klog) % N
        second = holder.get("second", False)
        klog.append(dict(second=second, g=g, orientation=orientation, strain_rate=strain_rate, velocity_gradient=velocity_gradient, p=p_, n=n_, lam=lam_))
        dA = quat.symmat(f"KdA{g}_")
        if second:
            dA = dA @ holder["Q"].transpose()
        return dA, real(f"KE{g}")

    def fn():
        log.clear()
        klog.clear()
        holder.clear()
        r, Q = _Q()
        holder["Q"] = Q
        Qt = Q.transpose()
        params = mh.sym_params(N)
        t = real("t")
        Fm = quat.symmat("F")
        A, f = mh.sym_snapshot("s", N)
        tot = R(0)
        c = sym.ctx()
        for x in f.flat:
            c.assume((x >= 0).z3())
            tot = tot + x
        c.assume((tot == 1).z3())
        for a in A.flat:
            c.assume(z3.And((a >= -1).z3(), (a <= 1).z3()))
        A2 = np.empty((N, 3, 3), dtype=object)
        for g in range(N):
            A2[g] = (A[g] @ Qt).view(np.ndarray)
        A2 = A2.view(SArr)
        for a in A2.flat:  # the rotated texture is a valid texture too (entries of a rotation matrix)
            c.assume(z3.And((a >= -1).z3(), (a <= 1).z3()))
        m1 = minerals.Mineral(P.olivine, F.olivine_A, getattr(Rg, regime), N, fractions_init=f.copy(), orientations_init=A.copy())
        m2 = minerals.Mineral(P.olivine, F.olivine_A, getattr(Rg, regime), N, fractions_init=f.copy(), orientations_init=A2.copy())
        pos = lambda t_: sarr(np.zeros(3))  # noqa: E731
        m1.update_orientations(params, Fm, lambda t_, x: Lf(t_, None), (real("t0"), real("t1"), pos))
        m2.update_orientations(params, Q @ Fm, lambda t_, x: Q @ Lf(t_, None) @ Qt, (real("t0"), real("t1"), pos))
        s1, s2 = log[0], log[1]
        y1 = np.asarray(s1.y0_arg, dtype=object)
        y2 = np.asarray(s2.y0_arg, dtype=object)
        n0 = len(klog)
        r1 = s1.fun(t, sarr(y1))
        holder["second"] = True
        r2 = s2.fun(t, sarr(y2))
        apps = c.notes.get("specrad_apps", [])
        return dict(r=r, Q=Q, r1=r1, r2=r2, k=klog[n0:], y1=y1, y2=y2, apps=apps)

    with mh.env(plan, log, extra=[(core, "_get_rotation_and_strain", kstub)]):
        paths, info = sym.explore(fn, max_paths=64)
    tag = f"rhs[{regime}/N={N}]"
    sess.paths[tag] = {"paths": len(paths)}
    if info["truncated"]:
        sess.truncated = True
    reached = False
    for pi, p in enumerate(paths):
        pt = f"{tag} path {pi}"
        if p.exc is not None:
            sess.prove(f"{pt}: raises {type(p.exc).__name__}: {str(p.exc)[:60]}", p.pc, z3.BoolVal(False))
            continue
        v = p.value
        rules = poly.Rules().unit_quat(v["r"])
        Q = v["Q"]
        Qt = Q.transpose()
        # environment fact: spectral radius of Q D Q^T equals that of D (instantiated on the two calls)
        pc = list(p.pc)
        apps = v["apps"]
        if len(apps) >= 2 and not apps[0][1].concrete and not apps[-1][1].concrete and not apps[0][1].v.eq(apps[-1][1].v):
            rules.alias(apps[-1][1], apps[0][1])
            pc.append(eq(apps[0][1], apps[-1][1]))
            D1 = np.zeros((3, 3), dtype=object)
            D2 = np.zeros((3, 3), dtype=object)
            kk = 0
            for i in range(3):
                for j in range(i + 1):
                    D1[i, j] = D1[j, i] = apps[0][0][kk]
                    D2[i, j] = D2[j, i] = apps[-1][0][kk]
                    kk += 1
            sess.prove_nf(f"{pt}: the two strain rates are related by D' = Q D Q^T (justifies equal spectral radii)", p.pc, rules, D2, Q @ sarr(D1) @ Qt)
        if sess.path_infeasible(f"{pt}: inconsistent combination (the two frames disagree on whether the strain rate vanishes) is infeasible", pc):
            continue
        k1 = [c for c in v["k"] if not c["second"]]
        k2 = [c for c in v["k"] if c["second"]]
        if len(k1) != len(k2):
            sess.prove(f"{pt}: both frames reach the grain kernel equally often (else infeasible)", pc, z3.BoolVal(False))
            continue
        if not reached and k1:
            reached = sess.satisfiable(f"{tag}: reach", pc).verdict == "sat"
        for a, b in zip(k1, k2):
            sess.prove_nf(f"{pt}: grain {a['g']}: kernel arguments in the rotated frame are (A Q^T, Q D Q^T, Q L Q^T)", pc, rules, resolve_ifs=True, A=
                          np.concatenate([np.asarray(b["orientation"], dtype=object).ravel(), np.asarray(b["strain_rate"], dtype=object).ravel(),
                                          np.asarray(b["velocity_gradient"], dtype=object).ravel()]),
                          B=np.concatenate([np.asarray(a["orientation"] @ Qt, dtype=object).ravel(), np.asarray(Q @ a["strain_rate"] @ Qt, dtype=object).ravel(),
                                          np.asarray(Q @ a["velocity_gradient"] @ Qt, dtype=object).ravel()]))
            sess.prove(f"{pt}: grain {a['g']}: p, n, lambda identical in both frames", pc, z3.And(eq(a["p"], b["p"]), eq(a["n"], b["n"]), eq(a["lam"], b["lam"])))
        r1, r2 = v["r1"], v["r2"]
        sess.prove_nf(f"{pt}: F block co-rotates: dF' = Q dF", pc, rules, r2[:9].reshape(3, 3), Q @ r1[:9].reshape(3, 3))
        o1 = r1[9 : 9 + 9 * N].reshape(N, 3, 3)
        o2 = r2[9 : 9 + 9 * N].reshape(N, 3, 3)
        for g in range(N):
            sess.prove_nf(f"{pt}: orientation rate of grain {g} co-rotates: dA' = dA Q^T", pc, rules, o2[g], o1[g] @ Qt, resolve_ifs=True)
        sess.prove_nf(f"{pt}: volume rates are frame independent", pc, rules, r2[9 + 9 * N :], r1[9 + 9 * N :], resolve_ifs=True)
    if not reached:
        sess.reach.append(type("Q", (), {"name": f"{tag}: reach", "verdict": "unknown", "secs": 0.0})())
    sample(sess, obligation="frame indifference of the rhs", config=tag, paths=len(paths))


def default_cex(name):
    """Generic public-API replay for verdicts that carry no more specific counterexample."""
    return {"replay": "vf.props.replays:c04_frames", "case": {}, "cls": {"kind": "rates or textures are not frame indifferent / symmetry invariant"}}
