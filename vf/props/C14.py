"""C14 -- M-index: partial. Decided: the misorientation kernel that feeds the index.

Frame independence of the pairwise misorientation datum max_{i,j} |<s_i q1, s_j q2>| follows if every
symmetry operator acts on quaternions as LEFT multiplication by a unit quaternion (left and right
multiplications commute) and relabelling invariance follows if those quaternions form a group. Both
are decided on the real operator lists and the real quaternion product; the rest of the real pipeline
(pairing, clip, abs, arccos, min, histogram input) is executed symbolically for 2-3 grains.
Added later: the index formula over contract histograms (t_index_formula), the quadrature of the real theoretical
density per system (t_theory_density, concrete), the batched variant over a contract pool (t_batched).
Not encodable: the ~0 / ~1 limits, histogram binning
for 2000 grains, multiprocessing.Pool ordering.
"""

from __future__ import annotations

import itertools as it
from fractions import Fraction

import numpy as np
import z3

from .. import poly, quat, solve, sym
from ..sarr import NpProxy, SArr, patched, sarr
from ..sym import R, real
from .common import all_eq, eq, np_installed, pydrex_modules, sample, only_path

TIMEOUT_MS = {"quick": 60000, "thorough": 300000}
SYSTEMS = ["triclinic", "monoclinic", "orthorhombic", "rhombohedral", "tetragonal", "hexagonal"]


def tasks(tier):
    t = [("t_quat_product", {})]
    t += [("t_symmetry_ops", {"system": s}) for s in SYSTEMS]
    t += [("t_pipeline", {"system": "triclinic", "n_grains": 3}), ("t_batched", {})]
    t += [("t_index_formula", {"system": s_, "bins": k}) for s_, k in (("triclinic", 3), ("orthorhombic", 2), ("hexagonal", 4))]
    t += [("t_theory_density", {"system": s_}) for s_ in SYSTEMS]
    if tier == "thorough":
        t += [("t_index_formula", {"system": s_, "bins": k}) for s_ in SYSTEMS for k in (1, 5, 6)]
        t += [("t_pipeline", {"system": "orthorhombic", "n_grains": 2})]
    return t


def hamilton(a, b):
    """Scalar-last Hamilton product a * b."""
    ax, ay, az, aw = a
    bx, by, bz, bw = b
    return [aw * bx + ax * bw + ay * bz - az * by,
            aw * by - ax * bz + ay * bw + az * bx,
            aw * bz + ax * by - ay * bx + az * bw,
            aw * bw - ax * bx - ay * by - az * bz]


def t_quat_product(sess):
    utils = pydrex_modules()["utils"]
    sess.encode(utils.quat_product)

    def fn():
        a, b = quat.symvec("a", 4), quat.symvec("b", 4)
        return a, b, utils.quat_product(a, b)

    with np_installed(utils):
        paths, _ = sym.explore(fn)
    p = only_path(sess, paths)
    a, b, out = p.value
    sess.satisfiable("quat_product: reach", p.pc)
    want = hamilton(list(a), list(b))
    name = "quat_product(q1, q2) = Hamilton product (scalar-last), for all q1, q2"
    q = sess.prove(name, p.pc, all_eq(np.array(out, dtype=object), np.array(want, dtype=object)))
    if not q.holds:
        cross = [a[1] * b[2] - a[2] * b[1], a[2] * b[0] - a[0] * b[2], a[0] * b[1] - a[1] * b[0], R(0)]
        rec = sess.prove(name + " [deviation is exactly the recorded one: the cross term v1 x v2 is missing]", p.pc,
                         all_eq(np.array(out, dtype=object), np.array([w - c for w, c in zip(want, cross)], dtype=object)), tags={"optional": True, "aux": True})
        kind = "quat_product drops the cross term" if rec.holds else "quat_product is not the Hamilton product (not the recorded defect)"
        sess.cex.append({"name": name, "replay": "vf.props.C14:replay_quat_product", "case": {}, "cls": {"kind": kind}})


def replay_quat_product(case):
    import numpy as np
    from pydrex import utils
    from scipy.spatial.transform import Rotation

    a = Rotation.from_euler("zxz", [0.3, 0.9, 1.4])
    b = Rotation.from_euler("zxz", [1.1, 0.4, 0.2])
    got = np.array(utils.quat_product(a.as_quat(), b.as_quat()))
    want = (a * b).as_quat()
    bad = not (np.allclose(got, want, atol=1e-12) or np.allclose(got, -want, atol=1e-12))
    return {"reproduced": bool(bad), "detail": {"got": got.tolist(), "scipy": want.tolist()}}


def _apply(utils, op, q):
    """Exactly what misorientation_hist does with one operator."""
    if op.shape == (4, 4):
        return op @ q
    return utils.quat_product(op, q)


def t_symmetry_ops(sess, system):
    mods = pydrex_modules()
    geo, utils, stats = mods["geometry"], mods["utils"], mods["stats"]
    sess.encode(geo.symmetry_operations, utils.quat_product, stats._max_misorientation)
    sysm = getattr(geo.LatticeSystem, system)
    ops = geo.symmetry_operations(sysm)
    sess.bounds["symmetry_ops"] = "every operator of every lattice system in the enumeration; action decided for all quaternions q"
    sess.prove(f"{system}: a maximum misorientation angle is defined for the system", [], z3.BoolVal(stats._max_misorientation(sysm) in (90, 120, 180)))
    ident = np.array([0.0, 0.0, 0.0, 1.0])
    sess.satisfiable(f"{system}: reach", [])
    unit_ops = []
    for k, op in enumerate(ops):
        opa = np.asarray(op, dtype=float)

        def fn():
            q = quat.symvec("q", 4)
            return q, _apply(utils, opa, q)

        with np_installed(utils):
            paths, _ = sym.explore(fn)
        p = only_path(sess, paths)
        q, out = p.value
        s = np.asarray(_apply(utils, opa, ident), dtype=float) if opa.shape == (4, 4) else opa
        # candidate rotation: the image of the identity orientation
        sq = [R(float(x)) for x in s]
        name = f"{system}: operator {k} acts on quaternions as left multiplication by a proper rotation (so it commutes with sample-frame rotations)"
        qr = sess.prove(name, p.pc, all_eq(np.array(list(out), dtype=object), np.array(hamilton(sq, list(q)), dtype=object)))
        if not qr.holds:
            kind = "reflection operator (4x4) is not a left multiplication" if opa.shape == (4, 4) else "rotation operator composed with the broken quaternion product is not a left multiplication"
            sess.cex.append({"name": name, "replay": "vf.props.C14:replay_frame", "case": {"system": system},
                             "cls": {"kind": kind, "system": system, "operator": k} if False else {"kind": kind, "system": system}})
        n2 = float(np.dot(s, s))
        sess.prove(f"{system}: operator {k} corresponds to a unit quaternion", [], z3.BoolVal(abs(n2 - 1) < 1e-12))
        unit_ops.append(s)
    # closure under composition (finite, concrete, exhaustive): s_i * s_j = +- s_k
    missing = []
    for i, j in it.product(range(len(unit_ops)), repeat=2):
        prod = np.array([float(x) for x in hamilton(list(unit_ops[i]), list(unit_ops[j]))])
        if not any(np.allclose(prod, o, atol=1e-9) or np.allclose(prod, -o, atol=1e-9) for o in unit_ops):
            missing.append((i, j))
    name = f"{system}: the operator set is closed under composition (a group, as relabelling invariance requires)"
    qg = sess.prove(name, [], z3.BoolVal(not missing), tags={"exhaustive_concrete": True})
    if missing:
        sess.cex.append({"name": name, "replay": "vf.props.C14:replay_closure", "case": {"system": system},
                         "cls": {"kind": "symmetry operators do not form a group", "system": system}})
    sample(sess, obligation="symmetry operators", system=system, n_ops=len(ops), not_closed_pairs=len(missing))


def replay_frame(case):
    """Public API: the index of a seeded texture before and after a rigid rotation of the sample frame."""
    import numpy as np
    import pydrex
    from pydrex import geometry as geo
    from scipy.spatial.transform import Rotation

    A = Rotation.random(40, random_state=7).as_matrix()
    Q = Rotation.from_euler("zxz", [0.7, 1.1, 0.4]).as_matrix()
    sysm = getattr(geo.LatticeSystem, case["system"])
    try:
        m1 = pydrex.misorientation_index(A, sysm)
        m2 = pydrex.misorientation_index(A @ Q.T, sysm)
    except AssertionError as e:
        return {"reproduced": True, "detail": f"misorientation_index raises AssertionError for this system (no index at all): {e!r}"}
    return {"reproduced": bool(abs(m1 - m2) > 1e-6), "detail": {"M": float(m1), "M_rotated_frame": float(m2)}}


def replay_index_formula(case):
    """Real misorientation_index against the formula recomputed from the public histogram and theoretical density."""
    import numpy as np
    import pydrex
    from pydrex import geometry as geo
    from pydrex import stats
    from scipy.spatial.transform import Rotation

    problems = []
    for system, seed in (("triclinic", 1), ("monoclinic", 2), ("orthorhombic", 3), ("tetragonal", 4), ("hexagonal", 5)):
        sysm = getattr(geo.LatticeSystem, system)
        for A in (Rotation.random(30, random_state=seed).as_matrix(), np.stack([np.eye(3)] * 6)):
            M = pydrex.misorientation_index(A, sysm)
            cnt, edges = stats.misorientation_hist(A, sysm)
            th = np.array([stats.misorientations_random(edges[i], edges[i + 1], sysm) for i in range(len(cnt))])
            tmax = stats._max_misorientation(sysm)
            want = tmax / (2 * len(cnt)) * np.abs(th - cnt).sum()
            if not np.isclose(M, want, rtol=1e-12, atol=1e-14):
                problems.append(f"{system}: M = {M!r}, formula gives {want!r}")
            if not (-1e-12 <= M <= 1 + 1e-3):
                problems.append(f"{system}: M = {M!r} outside [0, 1]")
    return {"reproduced": bool(problems), "detail": problems[:5] or "index equals the formula"}


def replay_closure(case):
    import numpy as np
    from pydrex import geometry as geo
    from scipy.spatial.transform import Rotation

    ops = [o for o in geo.symmetry_operations(getattr(geo.LatticeSystem, case["system"])) if np.asarray(o).shape == (4,)]
    rots = [Rotation.from_quat(o) for o in ops]
    bad = 0
    for a, b in it.product(rots, repeat=2):
        c = (a * b).as_quat()
        if not any(np.allclose(c, o, atol=1e-9) or np.allclose(c, -np.asarray(o), atol=1e-9) for o in ops):
            bad += 1
    return {"reproduced": bad > 0, "detail": {"rotation_operators": len(ops), "products_outside_the_set": bad}}


class Dec:
    """Value of a strictly decreasing function of `arg` (arccos on [0, 1]) times a positive scale."""

    __array_ufunc__ = None

    def __init__(self, arg, scale=1.0):
        self.arg, self.scale = arg, scale

    def rad2deg(self):
        return Dec(self.arg, self.scale * 57.29577951308232)

    def __mul__(self, k):
        try:
            k = float(k)
        except (TypeError, ValueError):
            raise sym.Unsupported("Dec * non-number") from None
        if k <= 0:
            raise sym.Unsupported("Dec * non-positive")
        return Dec(self.arg, self.scale * k)

    __rmul__ = __mul__


def t_pipeline(sess, system, n_grains):
    mods = pydrex_modules()
    stats, geo, utils = mods["stats"], mods["geometry"], mods["utils"]
    sess.encode(stats.misorientation_hist, geo.misorientation_angles)
    sess.assume_env("Rotation.from_matrix(A).as_quat() returns the unit quaternions supplied by the harness (scalar-last, q == -q); arccos is strictly decreasing on [0, 1]; np.histogram receives the data unchanged")
    sess.outside_claim("histogram binning for large textures (np.histogram by contract); the index formula, the theoretical density and the batched variant have their own tasks; Pool.imap ordering is its documented contract")
    sysm = getattr(geo.LatticeSystem, system)
    N = n_grains
    captured = {}

    class FakeRot:
        def __init__(self, qs):
            self.qs = qs

        def as_quat(self):
            return self.qs

    class RotationStub:
        @staticmethod
        def from_matrix(mats):
            return FakeRot(mats.quats)

    class Mats:
        def __init__(self, quats):
            self.quats = quats

        def copy(self):
            return self

        def __len__(self):
            return len(self.quats)

    class GeoProxy(NpProxy):
        def arccos(self, x):
            a = np.asarray(x, dtype=object)
            out = np.empty(a.shape, dtype=object)
            for i in np.ndindex(a.shape):
                out[i] = Dec(a[i])
            return out.view(SArr)

        def rad2deg(self, x):
            a = np.asarray(x, dtype=object)
            out = np.empty(a.shape, dtype=object)
            for i in np.ndindex(a.shape):
                out[i] = a[i].rad2deg()
            return out.view(SArr)

        def min(self, a, **kw):
            items = list(np.asarray(a, dtype=object).flat)
            best = items[0].arg
            for it_ in items[1:]:
                best = sym.rmax(best, it_.arg)  # min of a decreasing function = function of the max argument
            return Dec(best, items[0].scale)

    def histogram(data, bins=None, range=None, density=None):
        captured.setdefault("calls", []).append((np.asarray(data, dtype=object), bins, range, density))
        raise sym.PathAbort("cut at np.histogram")

    def run(qs):
        try:
            stats.misorientation_hist(Mats(sarr(np.array(qs, dtype=object))), sysm)
        except sym.PathAbort as e:
            if "cut" not in str(e):
                raise
        return captured["calls"][-1]

    def fn():
        captured.clear()
        qs = []
        for g in range(N):
            q, unit = quat.quat(f"q{g}")  # (w, x, y, z)
            sym.ctx().assume(unit)
            qs.append([q[1], q[2], q[3], q[0]])  # scalar-last
        r, unit = quat.quat("r")
        sym.ctx().assume(unit)
        rbar = [-r[1], -r[2], -r[3], r[0]]
        base = run(qs)
        perm = run(qs[::-1])
        rot = run([hamilton(q, rbar) for q in qs])
        return qs, r, base, perm, rot

    sproxy = NpProxy()
    sproxy.histogram = histogram
    gproxy = GeoProxy()
    with patched((stats, "np", sproxy), (geo, "np", gproxy), (utils, "np", NpProxy()), (stats, "Rotation", RotationStub)):
        paths, info = sym.explore(fn, catch=(Exception,))
    tag = f"pipeline[{system}, {N} grains]"
    for pi, bad in enumerate(pp for pp in paths if pp.exc is not None):
        # the real pipeline does something to the data that the decreasing-function stand-in does not support
        # (comparison, masking, arithmetic): not a harness error but a failed obligation, confirmed by the replay
        sess.prove(f"{tag}: the pipeline only clips, takes |.|, arccos and the minimum of the pair data (path {pi} raises {type(bad.exc).__name__}: {str(bad.exc)[:70]})", bad.pc, z3.BoolVal(False))
    paths = [pp for pp in paths if pp.exc is None]
    if not paths:
        sess.reach.append(solve.QueryResult(f"{tag}: reach", "unknown", None, 0.0))
        return
    p = only_path(sess, paths)
    qs, r, base, perm, rot = p.value
    rules = poly.Rules().unit_quat(r)
    for g in range(N):
        rules.unit_quat((qs[g][3], qs[g][0], qs[g][1], qs[g][2]))
    sess.satisfiable(f"{tag}: reach", p.pc)
    pairs = list(it.combinations(range(N), 2))
    sess.prove(f"{tag}: one datum per unordered pair of grains, histogram over (0, theta_max) with density=True", p.pc,
               z3.BoolVal(len(base[0]) == len(pairs) and base[2] == (0, stats._max_misorientation(sysm)) and base[3] is True))
    ops = geo.symmetry_operations(sysm)
    optional = {"optional": True} if system != "triclinic" else None
    for k, (i, j) in enumerate(pairs):
        d = base[0][k]
        if system == "triclinic":
            dot = sum((qs[i][c] * qs[j][c] for c in range(4)), R(0))
            want = abs(sym.rmin(sym.rmax(dot, -1), 1))
            sess.prove(f"{tag}: pair ({i},{j}): datum = 2 deg arccos(|<q_i, q_j>|) (clip, abs, smallest angle over operator pairs)", p.pc,
                       z3.And(eq(d.arg, want), z3.BoolVal(abs(d.scale - 2 * 57.29577951308232) < 1e-9)))
        kk = pairs.index((N - 1 - j, N - 1 - i))
        if system == "triclinic":
            # the datum is the same function |clip(.)| of the quaternion dot product in every run; the dot
            # product itself is invariant (normal form modulo |q| = |r| = 1)
            qr = [hamilton(q, [-r[1], -r[2], -r[3], r[0]]) for q in qs]
            dot_rot = sum((qr[i][c] * qr[j][c] for c in range(4)), R(0))
            sess.prove(f"{tag}: pair ({i},{j}): rotated-frame datum = |clip(<q_i r^-1, q_j r^-1>)|", p.pc, eq(rot[0][k].arg, abs(sym.rmin(sym.rmax(dot_rot, -1), 1))))
            sess.prove_nf(f"{tag}: pair ({i},{j}): <q_i r^-1, q_j r^-1> = <q_i, q_j>: datum unchanged by a rigid rotation of the sample frame", p.pc, rules, [dot_rot], [dot])
            sess.prove(f"{tag}: pair ({i},{j}): datum unchanged by reordering the grains", p.pc, eq(perm[0][kk].arg, d.arg))
        else:
            q1 = sess.prove_nf(f"{tag}: pair ({i},{j}): datum unchanged by a rigid rotation of the sample frame", p.pc, rules, [rot[0][k].arg], [d.arg], tags=optional)
            if q1.verdict == "sat":
                # on the pinned tree this is the pipeline-level face of the recorded operator defects of this system
                sess.cex.append({"name": q1.name, "replay": "vf.props.C14:replay_frame", "case": {"system": system},
                                 "cls": {"kind": "misorientation datum of the real pipeline depends on the sample frame", "system": system}})
            q2 = sess.prove_nf(f"{tag}: pair ({i},{j}): datum unchanged by reordering the grains", p.pc, rules, [perm[0][kk].arg], [d.arg], tags=optional)
            if q2.verdict == "sat":
                sess.cex.append({"name": q2.name, "replay": "vf.props.replays:c14_triclinic", "case": {}, "cls": {"kind": "misorientation datum depends on the order of the grains", "system": system}})
    sample(sess, obligation="misorientation datum", system=system, datum0=str(base[0][0].arg)[:200])


def t_index_formula(sess, system, bins):
    """misorientation_index on top of an arbitrary histogram obeying np.histogram(density=True)'s contract
    (k equal bins on [0, theta_max], non-negative densities, sum density * width = 1) and an arbitrary
    non-negative theoretical density: the index is (theta_max / 2k) sum_i |theory_i - observed_i| with the
    theoretical value taken over exactly the bin's edges, hence 0 <= M <= (1 + Q)/2 where Q = sum_i theory_i * width
    is the quadrature of the theoretical density (Q = 1 +- 1e-3 is what t_theory_density looks at)."""
    mods = pydrex_modules()
    diag, stats, geo = mods["diagnostics"], mods["stats"], mods["geometry"]
    sess.encode(diag.misorientation_index)
    sysm = getattr(geo.LatticeSystem, system)
    k = bins
    sess.bounds["index formula"] = f"{k} bins; arbitrary densities; system {system}"
    sess.assume_env("np.histogram(density=True, range=(0, theta_max), bins=k) by contract: k + 1 equally spaced edges, densities >= 0 with sum density * (theta_max / k) = 1")
    calls = {"hist": [], "theory": []}

    def fn():
        calls["hist"].clear()
        calls["theory"].clear()
        c = sym.ctx()
        tmax = stats._max_misorientation(sysm)
        cnt = [real(f"h{i}") for i in range(k)]
        tot = R(0)
        for x in cnt:
            c.assume((x >= 0).z3())
            tot = tot + x * Fraction(tmax, k)
        c.assume((tot == 1).z3())
        edges = [R(Fraction(tmax * i, k)) for i in range(k + 1)]

        def hist(orientations, system_, bins_=None):
            calls["hist"].append((orientations, system_, bins_))
            if system_ is not sysm:  # the earlier calls for the other lattice systems: their own histogram over their own range
                tm = stats._max_misorientation(system_)
                return sarr(np.array([R(Fraction(k, tm))] + [R(0)] * (k - 1), dtype=object)), sarr(np.array([R(Fraction(tm * i, k)) for i in range(k + 1)], dtype=object))
            return sarr(np.array(cnt, dtype=object)), sarr(np.array(edges, dtype=object))

        def theory(low, high, system_):
            v = c.ufs.generic(f"rtheory_{system_.name}", R(low), R(high))  # the theoretical density is a function of the lattice system too
            c.assume((R(v) >= 0).z3())
            calls["theory"].append((low, high, system_, v))
            return v

        A = object()
        with patched((stats, "misorientation_hist", hist), (stats, "misorientations_random", theory)):
            # the index of other textures, for every other lattice system (same number of bins), is computed first in the same
            # process: nothing such a call leaves behind (a memoised theoretical histogram, say) may reach this one
            for other in geo.LatticeSystem:
                if other is not sysm:
                    try:
                        diag.misorientation_index(object(), other)
                    except AssertionError:
                        pass
            calls["hist"].clear()
            calls["theory"].clear()
            M = diag.misorientation_index(A, sysm)
        return A, tmax, cnt, edges, M, list(calls["hist"]), list(calls["theory"])

    with np_installed(diag):
        paths, _ = sym.explore(fn, catch=(Exception,), max_paths=4096)
    tag = f"index formula[{system}, {k} bins]"
    sess.paths[tag] = {"paths": len(paths)}
    for pi, p in enumerate(paths[:64]):
        pt = f"{tag} path {pi}"
        if p.exc is not None:
            sess.prove(f"{pt}: raises {type(p.exc).__name__}: {str(p.exc)[:80]}", p.pc, z3.BoolVal(False))
            continue
        A, tmax, cnt, edges, M, hcalls, tcalls = p.value
        if pi == 0:
            sess.satisfiable(f"{tag}: reach", p.pc)
        ok = (len(hcalls) == 1 and hcalls[0][0] is A and hcalls[0][1] is sysm and len(tcalls) == k
              and all(tc[2] is sysm for tc in tcalls))
        sess.prove(f"{pt}: one histogram of the caller's orientations for the caller's system; one theoretical value per bin", p.pc, z3.BoolVal(ok))
        if not ok:
            continue
        sess.prove(f"{pt}: the theoretical value of bin i is taken between that bin's edges", p.pc,
                   z3.And(*[z3.And(eq(tcalls[i][0], edges[i]), eq(tcalls[i][1], edges[i + 1])) for i in range(k)]))
        w = Fraction(tmax, k)
        want = sum((abs(R(tcalls[i][3]) - cnt[i]) for i in range(k)), R(0)) * w / 2
        sess.prove(f"{pt}: M = (theta_max / 2k) sum |theory - observed|", p.pc, eq(M, want))
        Q = sum((R(tcalls[i][3]) for i in range(k)), R(0)) * w
        sess.prove(f"{pt}: 0 <= M <= (1 + Q)/2 with Q the quadrature of the theoretical density", p.pc, z3.And((R(M) >= 0).z3(), (R(M) <= (1 + Q) / 2).z3()))
        sess.prove(f"{pt}: M = 0 when the observed histogram equals the theoretical one", list(p.pc) + [eq(R(tcalls[i][3]), cnt[i]) for i in range(k)], eq(M, 0))
    if len(paths) > 64:
        sess.truncated = True


def t_theory_density(sess, system):
    """Concrete evaluation (no quantified input: one number per lattice system) of the real misorientations_random
    over the 1-degree bins misorientation_index uses: defined and non-negative on every bin of [0, theta_max] and
    summing to 1 within the 1e-3 quadrature error the property allows."""
    mods = pydrex_modules()
    stats, geo = mods["stats"], mods["geometry"]
    sess.encode(stats.misorientations_random, stats._max_misorientation)
    sysm = getattr(geo.LatticeSystem, system)
    tmax = stats._max_misorientation(sysm)
    vals, err = [], None
    for i in range(tmax):
        try:
            vals.append(float(stats.misorientations_random(i, i + 1, sysm)))
        except (Exception, AssertionError) as e:  # noqa: BLE001
            err = (i, type(e).__name__)
            break
    sess.satisfiable(f"theory density[{system}]: reach", [])
    tag = f"theory density[{system}]"
    q = sess.prove(f"{tag}: defined on every 1-degree bin of [0, {tmax}]", [], z3.BoolVal(err is None))
    if not q.holds:
        sess.cex.append({"name": q.name, "replay": "vf.props.C14:replay_theory", "case": {"system": system},
                         "cls": {"kind": "theoretical random-misorientation density raises inside [0, theta_max]", "system": system, "first_failing_bin": err[0]}})
        return
    q = sess.prove(f"{tag}: finite and non-negative on every bin", [], z3.BoolVal(bool(np.all(np.isfinite(vals)) and min(vals) >= -1e-12)))
    if not q.holds:
        sess.cex.append({"name": q.name, "replay": "vf.props.C14:replay_theory", "case": {"system": system},
                         "cls": {"kind": "theoretical random-misorientation density negative or not finite", "system": system}})
    total = float(np.sum(vals))
    sess.notes.append(f"{tag}: sum over 1-degree bins = {total:.6f}")
    q = sess.prove(f"{tag}: integrates to 1 over [0, {tmax}] within 1e-3 (sum over the bins = {total:.4f})", [], z3.BoolVal(abs(total - 1) <= 1e-3))
    if not q.holds:
        sess.cex.append({"name": q.name, "replay": "vf.props.C14:replay_theory", "case": {"system": system},
                         "cls": {"kind": "theoretical random-misorientation density does not integrate to 1 over [0, theta_max]", "system": system, "integral": round(total, 2)}})


def replay_theory(case):
    """Fresh interpreter, public functions: trapezoid sums of misorientations_random at 1 and 0.1 degree."""
    import numpy as np
    from pydrex import geometry as geo
    from pydrex import stats

    sysm = getattr(geo.LatticeSystem, case["system"])
    tmax = stats._max_misorientation(sysm)
    try:
        coarse = [stats.misorientations_random(i, i + 1, sysm) for i in range(tmax)]
        fine = [stats.misorientations_random(i / 10, (i + 1) / 10, sysm) * 0.1 for i in range(10 * tmax)]
    except AssertionError as e:
        return {"reproduced": True, "detail": f"misorientations_random raises AssertionError inside [0, {tmax}] for {case['system']}: {e!r}"}
    bad = abs(sum(coarse) - 1) > 1e-3 or abs(sum(fine) - 1) > 1e-3 or min(coarse) < -1e-12 or not np.all(np.isfinite(coarse))
    return {"reproduced": bool(bad), "detail": {"theta_max": tmax, "sum_1deg": float(sum(coarse)), "sum_0.1deg": float(sum(fine)), "min": float(min(coarse))}}


def default_cex(name):
    """Generic public-API replay for verdicts that carry no more specific counterexample."""
    if name.startswith("index formula"):
        return {"replay": "vf.props.C14:replay_index_formula", "case": {}, "cls": {"kind": "M-index is not (theta_max / 2k) sum |theory - observed|"}}
    if name.startswith("batched"):
        return {"replay": "vf.props.C14:replay_batched", "case": {}, "cls": {"kind": "batched M-index deviates from the per-snapshot values"}}
    return {"replay": "vf.props.replays:c14_triclinic", "case": {}, "cls": {"kind": "triclinic misorientation pipeline not invariant"}}


def t_batched(sess):
    """misorientation_indices: with Pool.imap's documented contract (results in input order) the batched variant
    returns exactly the per-snapshot values in snapshot order, for its own pool (any ncpus) and a supplied pool."""
    mods = pydrex_modules()
    diag = mods["diagnostics"]
    geo = mods["geometry"]
    sess.encode(diag.misorientation_indices)
    sess.assume_env("multiprocessing.Pool.imap yields f(x) for the inputs in input order (its documented contract); OS scheduling itself is outside the claim")
    made = []

    class FakePool:
        def __init__(self, processes=None):
            self.processes = processes
            made.append(self)

        def __enter__(self):
            return self

        def __exit__(self, *a):
            return False

        def imap(self, f, it_, chunksize=1):
            if chunksize < 1:  # multiprocessing.Pool's own argument check
                raise ValueError(f"Chunksize must be 1+, not {chunksize}")
            for x in it_:
                yield f(x)

        def map(self, f, it_, chunksize=None):
            return [f(x) for x in it_]

        def imap_unordered(self, f, it_, chunksize=1):
            # "the ordering of the results is arbitrary": completion order, here the reverse of the input order
            for x in reversed(list(it_)):
                yield f(x)

    calls = []

    def fake_index(orientations, system, bins=None):
        calls.append((orientations, system, bins))
        return orientations  # the snapshot's own marker stands for its index value

    results = {}
    with patched((diag, "Pool", FakePool), (diag, "misorientation_index", fake_index), (diag, "HAS_RAY", False)):
        for nstack in (1, 2, 4, 9):
            stack = [10.5 + i for i in range(nstack)]
            for label, kw in [(f"own pool, ncpus={w}", dict(ncpus=w)) for w in (1, 3, 16)] + [("own pool, default ncpus", dict()), ("supplied pool", dict(pool=FakePool(2)))]:
                calls.clear()
                try:
                    out = list(diag.misorientation_indices(stack, geo.LatticeSystem.triclinic, bins=7, **kw))
                except Exception as e:  # noqa: BLE001
                    out = f"{type(e).__name__}: {e}"
                results[(nstack, label)] = (out, [(c[1], c[2]) for c in calls], stack)
    for (nstack, label), (out, meta, stack) in results.items():
        sess.prove(f"batched [{nstack} snapshots, {label}]: one value per snapshot, in snapshot order", [], z3.BoolVal(out == stack))
        sess.prove(f"batched [{nstack} snapshots, {label}]: every snapshot is evaluated with the requested lattice system and bins", [],
                   z3.BoolVal(all(m == (geo.LatticeSystem.triclinic, 7) for m in meta) and len(meta) == len(stack)))
    sess.satisfiable("batched: reach", [])


def replay_batched(case):
    """Real multiprocessing pools: short and long stacks, several worker counts, a supplied pool."""
    import multiprocessing as mp

    import numpy as np
    import pydrex
    from pydrex import geometry as geo
    from scipy.spatial.transform import Rotation

    sysm = geo.LatticeSystem.triclinic
    problems = []
    for n in (1, 2, 5):
        stack = np.array([Rotation.random(8, random_state=10 + i).as_matrix() for i in range(n)])
        want = [pydrex.misorientation_index(a, sysm) for a in stack]
        for kw in (dict(ncpus=1), dict(ncpus=3), dict(ncpus=8), dict()):
            try:
                got = pydrex.diagnostics.misorientation_indices(stack, sysm, **kw)
                if not np.allclose(got, want, rtol=0, atol=0):
                    problems.append(f"{n} snapshots, {kw}: values differ from the per-snapshot index")
            except Exception as e:  # noqa: BLE001
                problems.append(f"{n} snapshots, {kw}: {type(e).__name__}: {e}")
        with mp.Pool(2) as pool:
            try:
                got = pydrex.diagnostics.misorientation_indices(stack, sysm, pool=pool)
                if not np.allclose(got, want, rtol=0, atol=0):
                    problems.append(f"{n} snapshots, supplied pool: values differ")
            except Exception as e:  # noqa: BLE001
                problems.append(f"{n} snapshots, supplied pool: {type(e).__name__}: {e}")

        class LatePool:
            """An externally supplied pool within multiprocessing.Pool's documented contract whose unordered results
            arrive in completion order (last input first), as they may with real workers."""

            def imap(self, f, it_, chunksize=1):
                return [f(x) for x in it_]

            def map(self, f, it_, chunksize=None):
                return [f(x) for x in it_]

            def imap_unordered(self, f, it_, chunksize=1):
                return [f(x) for x in reversed(list(it_))]

        try:
            got = pydrex.diagnostics.misorientation_indices(stack, sysm, pool=LatePool())
            if not np.allclose(got, want, rtol=0, atol=0):
                problems.append(f"{n} snapshots, supplied pool with late completion: values not in snapshot order")
        except Exception as e:  # noqa: BLE001
            problems.append(f"{n} snapshots, supplied pool with late completion: {type(e).__name__}: {e}")
    return {"reproduced": bool(problems), "detail": problems[:5] or "batched values equal per-snapshot values"}
