"""C15 -- volume-weighted resampling draws grains in proportion to their volume."""

from __future__ import annotations

import itertools as it

import numpy as np
import z3

from .. import quat, solve, stubs, sym
from ..sarr import NpProxy, SArr, patched, sarr
from ..sym import R, SymInt, real, symint
from .common import all_eq, eq, np_installed, pydrex_modules, sample

TIMEOUT_MS = {"quick": 60000, "thorough": 300000}


def tasks(tier):
    t = [("t_resample", {"n_snap": 1, "m": 2, "n_samples": 2}), ("t_resample", {"n_snap": 1, "m": 3, "n_samples": 1}),
         ("t_resample", {"n_snap": 2, "m": 2, "n_samples": None})]
    if tier == "thorough":
        t += [("t_resample", {"n_snap": 1, "m": 3, "n_samples": 2}), ("t_resample", {"n_snap": 1, "m": 4, "n_samples": 1})]
    t += [("t_seed_plumbing", {})]
    t += [("t_shapes", {"ndim_o": a, "ndim_f": b}) for a in (3, 4, 5) for b in (1, 2, 3)]
    return t


def t_resample(sess, n_snap, m, n_samples):
    stats = pydrex_modules()["stats"]
    sess.encode(stats.resample_orientations)
    sess.bounds["resample"] = "1-2 snapshots, M <= 3 (4 thorough) grains, n_samples <= 2, volumes >= 0 summing to 1 (zeros and ties allowed), every uniform variate in [0, 1)"
    sess.assume_env("numpy Generator.random(n): n values, each arbitrary in the half-open interval [0, 1) (0.0 included)")
    sess.outside_claim("convergence of sample statistics (law of large numbers) and n_samples up to 1e6")
    rlog = []
    RandomMod = stubs.rng_stub_factory(rlog)
    seen_seed = {}

    class RandomSpy:
        @staticmethod
        def default_rng(seed=None):
            seen_seed["seed"] = seed
            return RandomMod.default_rng(seed)

    def fn():
        rlog.clear()
        A = np.empty((n_snap, m, 3, 3), dtype=object)
        f = np.empty((n_snap, m), dtype=object)
        c = sym.ctx()
        for s in range(n_snap):
            tot = R(0)
            for g in range(m):
                f[s, g] = real(f"f{s}_{g}")
                c.assume((f[s, g] >= 0).z3())
                tot = tot + f[s, g]
                for ij in np.ndindex(3, 3):
                    A[(s, g) + ij] = real(f"A{s}_{g}_{ij[0]}{ij[1]}")
            c.assume((tot == 1).z3())
        A, f = A.view(SArr), f.view(SArr)
        A0, f0 = A.view(np.ndarray).copy(), f.view(np.ndarray).copy()
        rlog.clear()
        out = stats.resample_orientations(A, f, n_samples=n_samples, seed=12345)
        return A0, f0, out, list(rlog), A, f

    proxy = NpProxy()
    proxy.random = RandomSpy
    with np_installed(stats, proxy=proxy):
        paths, info = sym.explore(fn, max_paths=3000, catch=(Exception,))
    ns = n_samples if n_samples is not None else m
    tag = f"resample[N={n_snap}, M={m}, n_samples={n_samples}]"
    sess.paths[tag] = {"paths": len(paths), "runs": info["runs"], "pruned": info["infeasible"]}
    if info["truncated"]:
        sess.truncated = True
    reached = 0
    reported = False
    for k, p in enumerate(paths):
        pt = f"{tag} path {k}"
        if p.exc is not None:
            sess.prove(f"{pt}: raises {type(p.exc).__name__}: {str(p.exc)[:60]}", p.pc, z3.BoolVal(False))
            continue
        A0, f0, (oA, of), us, A, f = p.value
        if reached < 2:
            reached += sess.satisfiable(f"{pt}: reach", p.pc).verdict == "sat"
        if k == 0:
            sess.prove(f"{tag}: output shapes are (N, n_samples, 3, 3) and (N, n_samples), default n_samples = M", p.pc,
                       z3.BoolVal(oA.shape == (n_snap, ns, 3, 3) and of.shape == (n_snap, ns)))
            sess.prove(f"{tag}: the generator is created from the given seed, one draw of n_samples variates per snapshot", p.pc,
                       z3.BoolVal(seen_seed.get("seed") == 12345 and len(us) == n_snap and all(len(u) == ns for u in us)))

            sess.prove(f"{tag}: inputs are not modified", p.pc, z3.And(all_eq(A, A0), all_eq(f, f0)))
        for s in range(n_snap):
            for j in range(ns):
                u = us[s][j]
                # which input grain was selected? the output cells are the very cells of one input grain
                cand = [g for g in range(m) if all(oA[(s, j) + ij] is A0[(s, g) + ij] for ij in np.ndindex(3, 3))]
                fr_c = [g for g in range(m) if of[s, j] is f0[s, g]]
                both = [g for g in cand if g in fr_c]
                ok = len(both) >= 1
                sess.prove(f"{pt}: snapshot {s} sample {j}: (orientation, volume) is one input grain's pair of the same snapshot", p.pc, z3.BoolVal(ok))
                if not ok:
                    continue
                g = both[0]
                name = f"{pt}: snapshot {s} sample {j}: a zero-volume grain is never drawn"
                q = sess.prove(name, p.pc, (R(f0[s, g]) > 0).z3())
                if not q.holds:
                    ce = {"name": name, "case": {}, "cls": {"kind": "zero-volume grain drawn", "trigger": "uniform variate exactly 0.0"}}
                    if not reported:
                        reported = name
                        ce["replay"] = "vf.props.replays:c15_resample"
                    else:
                        ce["same_as"] = reported
                    sess.cex.append(ce)
                # selection = step function of u: grain drawn iff u lies in its cumulative-volume interval
                below = sum((sym.ite((R(f0[s, h]) < R(f0[s, g])), f0[s, h], R(0)) for h in range(m)), R(0))
                ties_before = R(0)
                # grains with equal volume share an interval block: allow any position inside the block
                block = sum((sym.ite((R(f0[s, h]) == R(f0[s, g])), f0[s, h], R(0)) for h in range(m)), R(0))
                sess.prove(f"{pt}: snapshot {s} sample {j}: u lies in the cumulative-volume interval of the drawn grain's volume class", p.pc,
                           z3.And((u >= below).z3(), (u <= below + block).z3()))
    if not reached:
        sess.reach.append(solve.QueryResult(f"{tag}: reach", "unknown", None, 0.0))
    sample(sess, obligation="resampling", config=tag, paths=len(paths))


def t_seed_plumbing(sess):
    """Every seed value, including the falsy ones, is handed to numpy's generator factory unchanged."""
    stats = pydrex_modules()["stats"]
    seen = []

    class Stop(Exception):
        pass

    class RandomSpy:
        @staticmethod
        def default_rng(seed="unset"):
            seen.append(seed)
            raise Stop()

    proxy = NpProxy()
    proxy.random = RandomSpy
    seeds = [0, None, 7, 12345, np.int64(0)]
    with np_installed(stats, proxy=proxy):
        for sd in seeds:
            try:
                stats.resample_orientations(np.zeros((1, 2, 3, 3)), np.full((1, 2), 0.5), seed=sd)
            except Stop:
                pass
    ok = len(seen) == len(seeds) and all((a is b) or (a is not None and b is not None and a == b and type(a) is type(b)) for a, b in zip(seeds, seen))
    sess.prove(f"seed plumbing: seeds {seeds!r} reach default_rng unchanged (got {seen!r})", [], z3.BoolVal(ok))
    sess.satisfiable("seed plumbing: reach", [])


def replay_zero_volume(case):
    """The RNG is forced to return 0.0 (a legal value of the half-open interval) around the real function."""
    import numpy as np
    from pydrex import stats

    class G:
        def random(self, n):
            return np.zeros(n)

    class RM:
        @staticmethod
        def default_rng(seed=None):
            return G()

    class NP:
        random = RM

        def __getattr__(self, k):
            return getattr(np, k)

    old = stats.np
    stats.np = NP()
    try:
        A = np.stack([np.eye(3), -np.eye(3)]).reshape(1, 2, 3, 3)
        f = np.array([[0.0, 1.0]])
        oA, of = stats.resample_orientations(A, f, n_samples=3, seed=1)
    finally:
        stats.np = old
    bad = bool(np.any(of == 0.0))
    return {"reproduced": bad, "detail": {"drawn_volumes": of.tolist(), "note": "stubbed RNG returns 0.0 for every variate"}}


class ShapeOnly:
    """Array stand-in exposing only `.shape` (symbolic extents); any other use ends the path."""

    _symbolic_shape = True

    def __init__(self, shape):
        self.shape = tuple(shape)

    def __len__(self):
        return self.shape[0]


def t_shapes(sess, ndim_o, ndim_f):
    stats = pydrex_modules()["stats"]
    sess.encode(stats.resample_orientations)
    sess.bounds["shapes"] = "orientation arrays of 3-5 dimensions, volume arrays of 1-3 dimensions, every extent an arbitrary non-negative integer"

    class Cut:
        @staticmethod
        def default_rng(seed=None):
            raise sym.PathAbort("accepted")

    def fn():
        so = [symint(f"o{i}") for i in range(ndim_o)]
        sf = [symint(f"f{i}") for i in range(ndim_f)]
        for x in so + sf:
            sym.ctx().assume((x >= 0).z3())
        stats.resample_orientations(ShapeOnly(so), ShapeOnly(sf))
        return "returned"

    proxy = NpProxy()
    proxy.random = Cut
    with np_installed(stats, proxy=proxy):
        paths, info = sym.explore(fn, catch=(Exception,))
    tag = f"shapes[{ndim_o}d, {ndim_f}d]"
    o = [z3.Int(f"o{i}") for i in range(ndim_o)]
    f = [z3.Int(f"f{i}") for i in range(ndim_f)]
    if ndim_o == 4 and ndim_f == 2:
        well = z3.And(o[0] == f[0], o[1] == f[1], o[2] == 3, o[3] == 3)
    else:
        well = z3.BoolVal(False)
    reported = False
    for k, p in enumerate(paths):
        if isinstance(p.exc, sym.PathAbort) and str(p.exc) == "accepted":
            name = f"{tag} path {k}: accepted => well-formed (4-d and 2-d, equal N and M, trailing (3, 3))"
            q = sess.prove(name, p.pc, well)
            if not q.holds and not reported:
                reported = True
                m = q.model
                shp_o = [int(str(m.eval(x, model_completion=True))) for x in o] if m is not None else []
                shp_f = [int(str(m.eval(x, model_completion=True))) for x in f] if m is not None else []
                sess.cex.append({"name": name, "replay": "vf.props.C15:replay_shape", "case": {"o": shp_o, "f": shp_f},
                                 "cls": {"kind": "malformed shape accepted", "ndim": [ndim_o, ndim_f]}})
        elif isinstance(p.exc, ValueError):
            sess.prove(f"{tag} path {k}: ValueError => malformed", p.pc, z3.Not(well))
        else:
            sess.prove(f"{tag} path {k}: unexpected outcome {p.exc!r}", p.pc, z3.BoolVal(False))
    sess.satisfiable(f"{tag}: reach", paths[0].pc)
    sess.paths[tag] = {"paths": len(paths)}


def replay_shape(case):
    import numpy as np
    import pydrex

    o = [min(max(int(x), 0), 6) if i < 2 else int(x) for i, x in enumerate(case["o"])]
    f = [min(max(int(x), 0), 6) for x in case["f"]]
    if any(x > 50 for x in o + f):
        return {"reproduced": None, "detail": "model too large to allocate"}
    try:
        pydrex.resample_orientations(np.ones(o), np.full(f, 1.0 / max(f[-1], 1)) if f else np.ones(f), seed=1)
        return {"reproduced": True, "detail": f"shapes {o} and {f} accepted without ValueError"}
    except ValueError as e:
        return {"reproduced": False, "detail": f"ValueError: {e}"}
    except Exception as e:  # noqa: BLE001
        return {"reproduced": True, "detail": f"shapes {o} and {f} not rejected with ValueError but failed later with {type(e).__name__}: {e}"}


def default_cex(name):
    """Generic public-API replay for verdicts that carry no more specific counterexample."""
    return {"replay": "vf.props.replays:c15_resample", "case": {}, "cls": {"kind": "resampling does not follow the volume distribution"}}
