"""C13 -- eigenvalue-based texture and strain diagnostics are objective."""

from __future__ import annotations

import itertools as it

import numpy as np
import z3

from .. import poly, quat, stubs, sym
from ..sarr import NpProxy, SArr, patched, sarr
from ..sym import R, real
from .common import all_eq, eq, np_installed, pydrex_modules, sample, only_path

TIMEOUT_MS = {"quick": 90000, "thorough": 300000}
AXES = {"a": 0, "b": 1, "c": 2}
TWOFOLDS = {"about a": (1, -1, -1), "about b": (-1, 1, -1), "about c": (-1, -1, 1)}


def tasks(tier):
    n = 2 if tier == "quick" else 3
    t = [("t_scatter", {"n_grains": n, "axis": ax}) for ax in AXES]
    t += [("t_invariants_conjugation", {})] + [("t_pgr", {"axis": ax}) for ax in AXES] + [("t_bingham", {"axis": ax}) for ax in AXES]
    t += [("t_coaxial", {}), ("t_coaxial", {"axis1": "a", "axis2": "c"}), ("t_coaxial", {"axis1": "c", "axis2": "b"}), ("t_finite_strain", {}), ("t_simple_shear_angle", {})]
    return t


def _grains(n):
    qs, As = [], []
    for g in range(n):
        q, unit = quat.quat(f"q{g}")
        sym.ctx().assume(unit)
        qs.append(q)
        As.append(quat.rotmat(q).view(np.ndarray))
    return qs, np.array(As, dtype=object).view(SArr)


def reach_shaped(sess, name, pc, timeout_ms=20000):
    """Reachability witness restricted to exactly representable inputs: every quaternion component in
    {0, +-1/2, +-1} (the 24 proper rotations of the cube), which makes the search essentially finite."""
    import re

    names = set()
    for c in pc:
        names |= set(re.findall(r"\b(?:q\d+|r|evq!\d+|u|v)_[wxyz]\b", str(c)))
    extra = []
    h = z3.Q(1, 2)
    for n in sorted(names):
        v = z3.Real(n)
        extra.append(z3.Or(v == 0, v == 1, v == -1, v == h, v == -h))
    return sess.satisfiable(name, list(pc) + extra, timeout_ms=timeout_ms)


def _complete(S):
    return stubs.lower_completed(S)


def t_scatter(sess, n_grains, axis):
    mods = pydrex_modules()
    stats = mods["stats"]
    sess.encode(stats._scatter_matrix)
    row = AXES[axis]
    N = n_grains
    sess.bounds["scatter"] = f"{N} grains A_g = R(q_g) over all unit quaternions; all three crystal axes; all proper frame rotations Q = R(r)"
    sess.outside_claim("grain counts beyond the bound (the sum is uniform in the grain index); LAPACK accuracy")

    def fn():
        qs, A = _grains(N)
        r, unit = quat.quat("r")
        sym.ctx().assume(unit)
        Q = quat.rotmat(r)
        S = stats._scatter_matrix(A, row)
        Aperm = A[::-1].copy()
        Sperm = stats._scatter_matrix(Aperm, row)
        flips = {}
        for name, sgn in TWOFOLDS.items():
            A2 = A.copy()
            A2[0] = (sarr(np.diag(sgn)) @ A[0]).view(np.ndarray)  # relabel grain 0 only (a subset of grains)
            flips[name] = stats._scatter_matrix(A2, row)
        Arot = np.array([(A[g] @ Q.transpose()).view(np.ndarray) for g in range(N)], dtype=object).view(SArr)
        Srot = stats._scatter_matrix(Arot, row)
        return qs, r, Q, A, S, Sperm, flips, Srot

    with np_installed(stats):
        paths, _ = sym.explore(fn)
    p = only_path(sess, paths)
    qs, r, Q, A, S, Sperm, flips, Srot = p.value
    rules = poly.Rules().unit_quat(r)
    for q in qs:
        rules.unit_quat(q)
    tag = f"scatter[{axis}, N={N}]"
    sess.satisfiable(f"{tag}: reach", p.pc)
    Sc = _complete(S)
    want = np.zeros((3, 3), dtype=object)
    for g in range(N):
        v = A[g][row]
        for i in range(3):
            for j in range(3):
                want[i, j] = want[i, j] + v[i] * v[j]
    sess.prove(f"{tag}: lower triangle = sum_g v_g v_g^T with v_g the chosen ROW of A_g (crystal axis in the external frame)", p.pc, all_eq(Sc, want))
    sess.prove_nf(f"{tag}: trace = number of grains (unit rows)", p.pc, rules, [Sc[0, 0] + Sc[1, 1] + Sc[2, 2]], [R(N)])
    x = [real(f"x{i}") for i in range(3)]
    quad = sum((x[i] * Sc[i, j] * x[j] for i in range(3) for j in range(3)), R(0))
    sos = sum(((sum((A[g][row][i] * x[i] for i in range(3)), R(0))) ** 2 for g in range(N)), R(0))
    sess.prove_nf(f"{tag}: x^T S x = sum_g (v_g . x)^2, so the scatter matrix is positive semi-definite", p.pc, rules, [quad], [sos])
    sess.prove(f"{tag}: unchanged by reordering the grains", p.pc, all_eq(_complete(Sperm), Sc))
    for name, S2 in flips.items():
        sess.prove_nf(f"{tag}: unchanged by the lattice two-fold {name} applied to one grain", p.pc, rules, _complete(S2), Sc)
    sess.prove_nf(f"{tag}: scatter(A Q^T) = Q scatter(A) Q^T (co-rotates)", p.pc, rules, _complete(Srot), Q @ Sc @ Q.transpose())
    sample(sess, obligation="scatter matrix", axis=axis, S10=str(S[1, 0])[:160])


def t_invariants_conjugation(sess):
    """The characteristic polynomial of a symmetric S is unchanged by S -> Q S Q^T: eigenvalues (hence P, G, R, BA,
    the principal stretch) are frame independent once the matrix co-rotates."""
    def fn():
        r, unit = quat.quat("r")
        sym.ctx().assume(unit)
        Q = quat.rotmat(r)
        S = np.empty((3, 3), dtype=object)
        for i in range(3):
            for j in range(3):
                S[i, j] = real(f"s{min(i, j)}{max(i, j)}")
        S = S.view(SArr)
        return r, S, Q @ S @ Q.transpose()

    paths, _ = sym.explore(fn)
    p = only_path(sess, paths)
    r, S, S2 = p.value
    rules = poly.Rules().unit_quat(r)

    def inv(M):
        tr = M[0, 0] + M[1, 1] + M[2, 2]
        i2 = M[0, 0] * M[1, 1] + M[1, 1] * M[2, 2] + M[2, 2] * M[0, 0] - M[0, 1] * M[1, 0] - M[1, 2] * M[2, 1] - M[2, 0] * M[0, 2]
        from ..sarr import det3

        return [tr, i2, det3(M)]

    sess.satisfiable("conjugation invariants: reach", p.pc)
    sess.prove_nf("trace, second invariant and determinant of Q S Q^T equal those of S (all symmetric S, all rotations Q)", p.pc, rules, inv(S2), inv(S))


def _diag_env(eig):
    mods = pydrex_modules()
    return [(mods["diagnostics"], "la", eig)]


def t_pgr(sess, axis):
    mods = pydrex_modules()
    diag, stats = mods["diagnostics"], mods["stats"]
    sess.encode(diag.symmetry_pgr)
    sess.assume_env("scipy.linalg.eigvalsh/eigh contract: ascending eigenvalues l and orthogonal V with S V = V diag(l) for the symmetric completion of the lower triangle; eigenvalues of a positive semi-definite matrix are >= 0")
    eig = stubs.EigLa()

    def fn():
        eig.calls.clear()
        qs, A = _grains(2)
        out = diag.symmetry_pgr(A, axis=axis)
        rec = eig.calls[0]
        # PSD-ness of the scatter matrix is decided in t_scatter; its eigenvalues are therefore >= 0
        sym.ctx().assume((rec["lam"][0] >= 0).z3())
        return out, rec, stats._scatter_matrix(A, AXES[axis]), len(eig.calls)

    with np_installed(diag, stats), patched(*_diag_env(eig)):
        paths, _ = sym.explore(fn)
    p = only_path(sess, paths)
    (P, G, Rr), rec, Sref, ncalls = p.value
    tag = f"pgr[{axis}]"
    for ob in p.obligations:
        sess.prove(f"{tag}: {ob.kind} cannot happen at `{(ob.site or ('', '?'))[1]}`", ob.pc, ob.cond)
    reach_shaped(sess, f"{tag}: reach", p.pc)
    l0, l1, l2 = rec["lam"]  # ascending
    tot = l0 + l1 + l2
    sess.prove(f"{tag}: P = (l_max - l_mid)/sum, G = 2 (l_mid - l_min)/sum, R = 3 l_min/sum (descending order used)", p.pc,
               z3.And(eq(P * tot, l2 - l1), eq(G * tot, 2 * (l1 - l0)), eq(Rr * tot, 3 * l0)))
    sess.prove(f"{tag}: P, G, R each in [0, 1]", p.pc, z3.And(*[z3.And((v >= 0).z3(), (v <= 1).z3()) for v in (P, G, Rr)]))
    sess.prove(f"{tag}: P + G + R = 1", p.pc, eq(P + G + Rr, 1))
    sess.prove(f"{tag}: one eigenvalue computation, of the scatter matrix of the requested axis", p.pc,
               z3.And(z3.BoolVal(rec["arg"].shape == (3, 3) and ncalls == 1), all_eq(stubs.lower_completed(rec["arg"]), stubs.lower_completed(Sref))))
    sample(sess, obligation="P, G, R", axis=axis, P=str(P)[:160])


def t_bingham(sess, axis):
    mods = pydrex_modules()
    diag, stats = mods["diagnostics"], mods["stats"]
    sess.encode(diag.bingham_average)
    eig = stubs.EigLa()

    def fn():
        eig.calls.clear()
        qs, A = _grains(2)
        m = diag.bingham_average(A, axis=axis)
        S = stats._scatter_matrix(A, AXES[axis])
        return qs, m, eig.calls[0], S

    with np_installed(diag, stats), patched(*_diag_env(eig)):
        paths, _ = sym.explore(fn)
    p = only_path(sess, paths)
    qs, m, rec, S = p.value
    tag = f"bingham[{axis}]"
    rules = poly.Rules().unit_quat(rec["q"]).sign(rec["sg"])
    for q in qs:
        rules.unit_quat(q)
    # la.norm = sqrt(sum of squares): r^2 -> sum of squares
    for name, lst in sym_sqrt_apps(p):
        rules.square(lst[1], R(lst[0]), None)
    reach_shaped(sess, f"{tag}: reach", p.pc)
    sess.prove(f"{tag}: the decomposed matrix is the scatter matrix of the requested axis", p.pc, all_eq(stubs.lower_completed(rec["arg"]), stubs.lower_completed(S)))
    sess.prove_nf(f"{tag}: result is a unit vector", p.pc, rules, [sum((c * c for c in m), R(0))], [R(1)])
    Sc = rec["S"]
    lmax = rec["lam"][2]
    Sm = Sc @ m
    # S V = V diag(l) is an axiom of the stub: use it through the eigenvector column it returned
    Vcol = rec["V"][:, 2]
    sess.prove_nf(f"{tag}: result is parallel to the eigenvector column of the LARGEST eigenvalue (last column, ascending order)", p.pc, rules,
                  [m[0] * Vcol[1] - m[1] * Vcol[0], m[1] * Vcol[2] - m[2] * Vcol[1], m[0] * Vcol[2] - m[2] * Vcol[0]], [R(0), R(0), R(0)])
    SV = rec["SV"]
    sess.prove(f"{tag}: that column is an eigenvector of the scatter matrix for the largest eigenvalue (instance of the eigh contract)", p.pc,
               z3.And(*[(SV[i, 2] == rec["V"][i, 2] * lmax).z3() for i in range(3)], (lmax >= rec["lam"][1]).z3(), (lmax >= rec["lam"][0]).z3()))
    sample(sess, obligation="Bingham mean", axis=axis, m0=str(m[0])[:160])


def sym_sqrt_apps(p):
    """(name, (argument term, result term)) of the sqrt applications made on this path."""
    return [(str(r), (args[0], r)) for args, r, _ in p.uf_apps.get("sqrt", [])]


def t_coaxial(sess, axis1=None, axis2=None):
    mods = pydrex_modules()
    diag, stats = mods["diagnostics"], mods["stats"]
    sess.encode(diag.coaxial_index)
    eig = stubs.EigLa()
    kw = {} if axis1 is None else {"axis1": axis1, "axis2": axis2}
    a1, a2 = (axis1 or "b"), (axis2 or "a")  # documented defaults: the "BA" index

    def fn():
        eig.calls.clear()
        qs, A = _grains(2)
        ba = diag.coaxial_index(A, **kw)
        for rec in eig.calls:
            sym.ctx().assume((rec["lam"][0] >= 0).z3())
        return ba, list(eig.calls), stats._scatter_matrix(A, AXES[a1]), stats._scatter_matrix(A, AXES[a2])

    with np_installed(diag, stats), patched(*_diag_env(eig)):
        paths, _ = sym.explore(fn)
    p = only_path(sess, paths)
    ba, calls, S1, S2 = p.value
    tag = "coaxial" if axis1 is None else f"coaxial[{axis1}, {axis2}]"
    reach_shaped(sess, f"{tag}: reach", p.pc)
    # P + G > 0 for both axes <=> the scatter matrices are not exactly isotropic (l_max > l_min)
    noniso = [(c["lam"][2] > c["lam"][0]).z3() for c in calls]
    for ob in p.obligations:
        sess.prove(f"{tag}: {ob.kind} cannot happen at `{(ob.site or ('', '?'))[1]}` (non-isotropic scatter matrices)", ob.pc + noniso, ob.cond)
    sess.prove(f"{tag}: index in [0, 1] whenever neither scatter matrix is exactly isotropic", p.pc + noniso, z3.And((ba >= 0).z3(), (ba <= 1).z3()))
    sess.prove(f"{tag}: two eigen-decompositions (axis1 then axis2)", p.pc, z3.BoolVal(len(calls) == 2))
    if len(calls) == 2:
        sess.prove(f"{tag}: the decomposed matrices are the scatter matrices of axis1 = {a1} and axis2 = {a2}, in that order", p.pc,
                   z3.And(all_eq(stubs.lower_completed(calls[0]["arg"]), stubs.lower_completed(S1)), all_eq(stubs.lower_completed(calls[1]["arg"]), stubs.lower_completed(S2))))
        (l0, l1, l2), (m0, m1, m2) = calls[0]["lam"], calls[1]["lam"]
        # P = l2 - l1, G = 2 (l1 - l0) (common factor 1/sum cancels): BA = (2 - P1/(G1+P1) - G2/(G2+P2)) / 2
        P1, G1, P2, G2 = l2 - l1, 2 * (l1 - l0), m2 - m1, 2 * (m1 - m0)
        sess.prove(f"{tag}: BA = (2 - P1/(G1 + P1) - G2/(G2 + P2))/2 with (P1, G1) of axis1 and (P2, G2) of axis2", p.pc + noniso,
                   eq(2 * ba * (G1 + P1) * (G2 + P2), 2 * (G1 + P1) * (G2 + P2) - P1 * (G2 + P2) - G2 * (G1 + P1)))


def t_finite_strain(sess):
    mods = pydrex_modules()
    diag = mods["diagnostics"]
    sess.encode(diag.finite_strain)
    eig = stubs.EigLa()

    def fn():
        eig.calls.clear()
        Fm = quat.symmat("F")
        r, unit = quat.quat("r")
        sym.ctx().assume(unit)
        Q = quat.rotmat(r)
        out = diag.finite_strain(Fm)
        rec = eig.calls[0]
        sym.ctx().assume((rec["lam"][0] >= 0).z3())  # F F^T is positive semi-definite
        diag.finite_strain(Fm @ Q)
        diag.finite_strain(Q @ Fm)
        return Fm, r, Q, out, list(eig.calls)

    with np_installed(diag), patched(*_diag_env(eig)):
        paths, _ = sym.explore(fn)
    p = only_path(sess, paths)
    Fm, r, Q, (stretch, axis), calls = p.value
    rules = poly.Rules().unit_quat(r)
    B = Fm @ Fm.transpose()
    reach_shaped(sess, "finite strain: reach", p.pc)
    sess.prove("finite strain: the decomposed matrix is the LEFT Cauchy-Green tensor F F^T", p.pc, all_eq(stubs.lower_completed(calls[0]["arg"]), stubs.lower_completed(B)))
    lam, V = calls[0]["lam"], calls[0]["V"]
    sess.prove("finite strain: returns sqrt(largest eigenvalue) - 1 and the matching eigenvector column", p.pc,
               z3.And(eq((stretch + 1) * (stretch + 1), lam[2]), (stretch + 1 >= 0).z3(), all_eq(axis, V[:, 2])))
    sess.prove_nf("finite strain: a prior rigid rotation F -> F Q leaves F F^T unchanged", p.pc, rules, stubs.lower_completed(calls[1]["arg"]), stubs.lower_completed(B))
    sess.prove_nf("finite strain: a subsequent rotation F -> Q F conjugates F F^T by Q (axis co-rotates, stretch unchanged)", p.pc, rules,
                  stubs.lower_completed(calls[2]["arg"]), Q @ stubs.lower_completed(B) @ Q.transpose())


def t_simple_shear_angle(sess):
    """Closed-form helper vs F F^T for simple shear with velocity along Y and gradient along X:
    the direction (1, tan(angle)) returned by the helper is the eigenvector of the largest eigenvalue."""
    mods = pydrex_modules()
    utils = mods["utils"]
    sess.encode(utils.angle_fse_simpleshear)
    rec = {}

    def arctan(x):
        rec["t"] = x
        return sym.ctx().ufs.generic("arctan", x)

    def fn():
        eps = real("eps")
        sym.ctx().assume((eps > 0).z3())
        ang = utils.angle_fse_simpleshear(eps)
        return eps, ang, rec["t"]

    proxy = NpProxy()
    proxy.arctan = arctan
    with np_installed(utils, proxy=proxy):
        paths, _ = sym.explore(fn)
    p = only_path(sess, paths)
    eps, ang, t = p.value
    gam = 2 * eps
    B = [[R(1), gam, R(0)], [gam, 1 + gam * gam, R(0)], [R(0), R(0), R(1)]]  # (I + g e_y e_x^T)(I + g e_y e_x^T)^T
    lam = 1 + gam * t
    v = [R(1), t, R(0)]
    Bv = [sum((B[i][j] * v[j] for j in range(3)), R(0)) for i in range(3)]
    sess.satisfiable("simple shear angle: reach", p.pc)
    sess.prove("simple shear: (1, tan angle, 0) is an eigenvector of F F^T with eigenvalue 1 + gamma tan(angle), tensorial strain = gamma/2", p.pc,
               z3.And(*[eq(Bv[i], lam * v[i]) for i in range(3)]))
    sess.prove("simple shear: that eigenvalue is the largest (>= 1 >= its reciprocal; the three eigenvalues are lam, 1, 1/lam)", p.pc,
               z3.And((lam >= 1).z3(), eq((lam + (1 + gam * gam + 1 - lam)), 2 + gam * gam), eq(lam * (2 + gam * gam - lam), 1)))
    sess.prove("simple shear: the helper's angle is arctan of a slope > 1 (between 45 and 90 degrees from X)", p.pc, (t > 1).z3())


def default_cex(name):
    """Generic public-API replay for verdicts that carry no more specific counterexample."""
    return {"replay": "vf.props.replays:c13_diagnostics", "case": {}, "cls": {"kind": "eigenvalue-based diagnostic wrong or not objective"}}
