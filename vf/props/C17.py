"""C17 -- Mineral persistence round trip (partial: the logic of save / load / from_file).

The archive layer (np.savez, np.load, ZipFile + np.save) is replaced by a dict-backed stand-in with the
contract "a key reads back the object stored under it". Decided: which keys are written and read for
any postfix, that keys of distinct postfixes never collide (z3 strings, all strings), packing order of
(phase, fabric, regime) through uint8 for symbolic ordinals, restoration of the grain count, recovery
of k <= 3 minerals saved under distinct postfixes in any order, rejection of corrupt state before any
archive call, rejection of non-.npz names by both loaders (z3 strings). Bit-exactness of float64
through np.save/zip and real files are numpy's contract and outside the claim.
"""

from __future__ import annotations

import io as _pyio
import itertools as it

import numpy as np
import z3

from .. import solve, sym
from ..sarr import NpProxy, SArr, patched, sarr
from ..sym import R, SymInt, real, symint
from . import mineral_h as mh
from .common import all_eq, eq, np_installed, pydrex_modules, sample, only_path

TIMEOUT_MS = {"quick": 60000, "thorough": 300000}


def tasks(tier):
    t = [("t_keys", {}), ("t_roundtrip", {"postfixes": [None]}), ("t_roundtrip", {"postfixes": ["a"]}),
         ("t_roundtrip", {"postfixes": ["a", "b"]}), ("t_roundtrip", {"postfixes": ["7", None, "x_y"]}),
         ("t_roundtrip", {"postfixes": [0, 1]}), ("t_roundtrip", {"postfixes": ["", "0"]}),
         ("t_roundtrip", {"postfixes": ["run-1", "run1", "run 1"]}), ("t_roundtrip", {"postfixes": ["0.5", "05", "z=-1e5", "z=1e-5"]}),
         ("t_corrupt", {}), ("t_filenames", {})]
    if tier == "thorough":
        t += [("t_roundtrip", {"postfixes": list(p)}) for p in it.permutations(["1", "2", "10"])]
    return t


class Archive:
    """Dict-backed stand-in for an NPZ file: contract = a key reads back the object stored under it."""

    def __init__(self):
        self.files = {}
        self.calls = []

    def savez(self, filename, **data):
        self.calls.append(("savez", filename, sorted(data)))  # numpy opens (truncates) the file before it converts the values
        for v in data.values():
            _ragged(v)
        store = self.files.setdefault(filename, {})
        store.clear()  # np.savez rewrites the file
        store.update(data)

    def load(self, filename, **kw):
        self.calls.append(("load", filename))
        return dict(self.files[filename])

    def zipfile(self):
        arch = self

        class ZF:
            def __init__(self, filename, mode="r", **kw):
                arch.calls.append(("zip", filename, mode))
                self.filename, self.mode = filename, mode
                if mode not in ("a", "w"):
                    raise sym.HarnessError("unexpected zip mode")

            def open(self, name, mode="r", **kw):
                zf = self

                class Member:
                    def __enter__(self_m):
                        self_m.buf = []
                        return self_m

                    def write(self_m, data):
                        self_m.buf.append(data)

                    def __exit__(self_m, *a):
                        if len(self_m.buf) != 1:
                            raise sym.HarnessError("expected a single write per member")
                        arch.files.setdefault(zf.filename, {})[name] = self_m.buf[0].payload
                        arch.calls.append(("member", zf.filename, name))
                        return False

                return Member()

        return ZF


def _ragged(v):
    """numpy's conversion of a list of arrays of unequal shapes (np.save / np.savez -> np.asanyarray) raises ValueError."""
    if isinstance(v, (list, tuple)) and len({np.shape(x) for x in v}) > 1:
        raise ValueError("setting an array element with a sequence. The requested array has an inhomogeneous shape")


class Payload:
    def __init__(self, payload):
        self.payload = payload


class FakeBytesIO:
    def __init__(self):
        self.obj = None

    def getvalue(self):
        return Payload(self.obj)

    def close(self):
        pass


class FakeIoMod:
    BytesIO = FakeBytesIO


def _np_proxy(arch):
    proxy = NpProxy()

    def save(buffer, arr):
        _ragged(arr)
        buffer.obj = arr

    def array(obj, dtype=None, **kw):
        if dtype is np.uint8:
            # uint8 conversion: exact for 0 <= v < 256 (all enum ordinals); recorded as an obligation
            out = np.empty(len(obj), dtype=object)
            for i, v in enumerate(obj):
                v = SymInt(v) if not isinstance(v, SymInt) else v
                sym.ctx().definedness("uint8 overflow of an enum ordinal", z3.And(v.z3() >= 0, v.z3() < 256))
                out[i] = v
            return out
        return NpProxy.array(proxy, obj, dtype=dtype, **kw)

    proxy.save = save
    proxy.array = array
    proxy.savez = arch.savez
    proxy.load = arch.load
    return proxy


def _mineral(tag, n_grains, n_snaps, ordinals):
    m = pydrex_modules()["minerals"]
    snaps = [mh.sym_snapshot(f"{tag}{k}", n_grains) for k in range(n_snaps)]
    mineral = m.Mineral(phase=ordinals[0], fabric=ordinals[1], regime=ordinals[2], n_grains=n_grains,
                        fractions_init=snaps[0][1], orientations_init=snaps[0][0])
    for A, f in snaps[1:]:
        mineral.orientations.append(A)
        mineral.fractions.append(f)
    return mineral, snaps


def _env(arch):
    mods = pydrex_modules()
    minerals = mods["minerals"]
    import pydrex.io as pio

    return patched((minerals, "np", _np_proxy(arch)), (minerals, "ZipFile", arch.zipfile()), (minerals, "io", FakeIoMod),
                   (pio, "resolve_path", lambda p, refdir=None: p))


def t_keys(sess):
    """Keys of distinct postfixes never collide, nor with the un-postfixed keys (all strings; z3 seq theory)."""
    p1, p2 = z3.String("p1"), z3.String("p2")
    names = ["meta", "fractions", "orientations"]
    k1, k2 = z3.String("k1"), z3.String("k2")
    dom = lambda k: z3.Or(*[k == z3.StringVal(n) for n in names])  # noqa: E731
    key = lambda k, p: z3.Concat(k, z3.StringVal("_"), p)  # noqa: E731
    sess.prove("keys: (k1 + '_' + p1 == k2 + '_' + p2) implies k1 == k2 and p1 == p2, for all postfix strings", [dom(k1), dom(k2)],
               z3.Implies(key(k1, p1) == key(k2, p2), z3.And(k1 == k2, p1 == p2)), tags={"exact_only": True})
    sess.prove("keys: a postfixed key never equals an un-postfixed key", [dom(k1), dom(k2)], key(k1, p1) != k2, tags={"exact_only": True})
    sess.satisfiable("keys: reach", [dom(k1), dom(k2), p1 != p2])


def t_roundtrip(sess, postfixes):
    mods = pydrex_modules()
    minerals = mods["minerals"]
    core = mods["core"]
    sess.encode(minerals.Mineral.save, minerals.Mineral.load, minerals.Mineral.from_file)
    sess.bounds["roundtrip"] = "1-3 minerals per archive, 2 grains, 1-2 snapshots, symbolic enum ordinals, symbolic float contents; postfix sets listed in the task names"
    sess.assume_env("archive contract: np.savez / ZipFile member + np.save / np.load return, for a key, exactly the object stored under it")
    arch = Archive()
    tag = f"roundtrip{postfixes}"

    def fn():
        arch.files.clear()
        arch.calls.clear()
        ms = []
        for i, pf in enumerate(postfixes):
            ords = [symint(f"ph{i}"), symint(f"fb{i}"), symint(f"rg{i}")]
            for o, hi in zip(ords, (1, 5, 7)):
                sym.ctx().assume(z3.And(o.z3() >= 0, o.z3() <= hi))
            m, snaps = _mineral(f"m{i}_", 2, 1 + (i % 2), ords)
            ms.append((m, snaps, ords, pf))
            m.save("arch.npz", postfix=pf)
        loaded = []
        for m, snaps, ords, pf in ms[::-1]:
            a = minerals.Mineral.from_file("arch.npz", postfix=pf)
            b = minerals.Mineral(n_grains=5, fractions_init=sarr(np.full(5, 0.2)), orientations_init=sarr(np.zeros((5, 3, 3))))
            b.load("arch.npz", postfix=pf)
            loaded.append((m, snaps, ords, pf, a, b))
        return loaded, list(arch.calls), {k: sorted(v) for k, v in arch.files.items()}

    with _env(arch):
        paths, info = sym.explore(fn, catch=(Exception,))
    if None in postfixes and len(postfixes) > 1:
        # np.savez rewrites the whole file: mixing the un-postfixed form with postfixed entries is order dependent;
        # the property speaks of distinct postfixes, so only report what happens
        pass
    reported = False
    for k, p in enumerate(paths):
        pt = f"{tag} path {k}"
        if p.exc is not None:
            sess.prove(f"{pt}: raises {type(p.exc).__name__}: {str(p.exc)[:80]}", p.pc, z3.BoolVal(False),
                       tags={"optional": True, "allow_sat": True} if (None in postfixes and len(postfixes) > 1) else None)
            continue
        loaded, calls, files = p.value
        for ob in p.obligations:
            sess.prove(f"{pt}: {ob.kind} cannot happen", ob.pc, ob.cond)
        sess.satisfiable(f"{pt}: reach", p.pc)
        want_keys = sorted(f"{n}{'' if pf is None else '_' + str(pf)}" for pf in postfixes for n in ("meta", "fractions", "orientations"))
        if not (None in postfixes and len(postfixes) > 1):
            sess.prove(f"{pt}: the archive holds exactly the keys meta/fractions/orientations + '_' + str(postfix) of every saved mineral "
                       f"(the real key is the literal concatenation, for which t_keys shows collision freedom over all strings)", p.pc,
                       z3.BoolVal(files.get("arch.npz") == want_keys))
        for m, snaps, ords, pf, a, b in loaded:
            if None in postfixes and len(postfixes) > 1 and pf is not None and postfixes.index(pf) < postfixes.index(None):
                continue  # overwritten by the later un-postfixed np.savez: outside 'distinct postfixes'
            for which, obj in (("from_file", a), ("load", b)):
                nm = f"{pt}: [{which}, postfix {pf!r}]"
                sess.prove(f"{nm} phase, fabric and regime are restored (same packing order on both sides)", p.pc,
                           z3.And((SymInt(obj.phase) == ords[0]).z3(), (SymInt(obj.fabric) == ords[1]).z3(), (SymInt(obj.regime) == ords[2]).z3()))
                same = len(obj.fractions) == len(snaps) and len(obj.orientations) == len(snaps)
                sess.prove(f"{nm} the number of stored snapshots is restored", p.pc, z3.BoolVal(same))
                if same:
                    cells = [all_eq(np.asarray(x, dtype=object), np.asarray(s[1], dtype=object)) for x, s in zip(obj.fractions, snaps)] + \
                            [all_eq(np.asarray(x, dtype=object), np.asarray(s[0], dtype=object)) for x, s in zip(obj.orientations, snaps)]
                    sess.prove(f"{nm} every snapshot of fractions and orientations is restored cell by cell", p.pc, z3.And(*cells))
                name = f"{nm} the grain count is restored"
                q = sess.prove(name, p.pc, z3.BoolVal(obj.n_grains == 2))
                if not q.holds:
                    ce = {"name": name, "case": {}, "cls": {"kind": "grain count not restored", "loader": which}}
                    if not reported:
                        reported = name
                        ce["replay"] = "vf.props.C17:replay_n_grains"
                    else:
                        ce["same_as"] = reported
                    sess.cex.append(ce)
    sample(sess, obligation="save/load round trip", postfixes=[str(x) for x in postfixes], archive_calls=[str(c) for c in (paths[0].value[1] if paths and paths[0].value else [])][:6])


def replay_n_grains(case):
    import os
    import tempfile

    import numpy as np
    import pydrex

    d = tempfile.mkdtemp(prefix="c17_")
    f = os.path.join(d, "m.npz")
    a = pydrex.Mineral(n_grains=3, seed=1)
    a.save(f)
    b = pydrex.Mineral(n_grains=5, seed=2)
    b.load(f)
    c = pydrex.Mineral.from_file(f)
    bad = b.n_grains != 3 or c.n_grains != 3
    return {"reproduced": bool(bad), "detail": {"saved": 3, "after_load": int(b.n_grains), "from_file": int(c.n_grains), "loaded_fraction_count": int(len(b.fractions[0]))}}


def t_corrupt(sess):
    """Corrupt state is rejected with ValueError before any archive call."""
    minerals = pydrex_modules()["minerals"]
    arch = Archive()
    cases = {
        "unequal snapshot counts": lambda m: m.fractions.append(m.fractions[0]),
        "fractions size != n_grains": lambda m: m.fractions.__setitem__(0, sarr(np.zeros(3))),
        "orientations size != n_grains": lambda m: m.orientations.__setitem__(0, sarr(np.zeros((3, 3, 3)))),
        "n_grains attribute stale": lambda m: setattr(m, "n_grains", 4),
        # a LATER snapshot of the wrong size (the first one is consistent)
        "fractions[1] size != n_grains": lambda m: m.fractions.__setitem__(1, sarr(np.zeros(3))),
        "orientations[1] size != n_grains": lambda m: m.orientations.__setitem__(1, sarr(np.zeros((3, 3, 3)))),
        "fractions[-1] one grain short": lambda m: m.fractions.__setitem__(len(m.fractions) - 1, sarr(np.zeros(1))),
    }
    for label, corrupt in cases.items():
        for pf in (None, "p"):
            def fn():
                arch.files.clear()
                arch.calls.clear()
                m, _ = _mineral("c", 2, 2, [0, 0, 4])
                corrupt(m)
                try:
                    m.save("arch.npz", postfix=pf)
                    return "saved", list(arch.calls)
                except ValueError:
                    return "ValueError", list(arch.calls)

            with _env(arch):
                paths, _ = sym.explore(fn, catch=(Exception,))
            p = only_path(sess, paths)
            if p.exc is not None:
                sess.prove(f"corrupt [{label}, postfix {pf!r}]: unexpected {type(p.exc).__name__}: {str(p.exc)[:60]}", p.pc, z3.BoolVal(False))
                continue
            outcome, calls = p.value
            sess.prove(f"corrupt [{label}, postfix {pf!r}]: ValueError, nothing written", p.pc, z3.BoolVal(outcome == "ValueError" and not calls))
    sess.satisfiable("corrupt: reach", [])


def t_filenames(sess):
    """Both loaders reject exactly the names that do not end in '.npz' (z3 strings for the predicate;
    the real loaders are run on representative names of both classes)."""
    minerals = pydrex_modules()["minerals"]
    arch = Archive()
    s = z3.String("s")
    good = z3.SuffixOf(z3.StringVal(".npz"), s)
    # str.endswith('.npz') <=> length >= 4 and the last four characters are '.npz'
    alt = z3.And(z3.Length(s) >= 4, z3.SubString(s, z3.Length(s) - 4, 4) == z3.StringVal(".npz"))
    sess.prove("filenames: endswith('.npz') characterisation (all strings)", [], good == alt, tags={"exact_only": True})
    names = ["a.npz", ".npz", "x/y.z.npz", "a.npy", "npz", "a.npz.bak", "a.NPZ", "", "a.npz ", "anpz"]
    for nm in names:
        for which in ("load", "from_file"):
            def fn():
                arch.files.clear()
                arch.calls.clear()
                m, _ = _mineral("f", 2, 1, [0, 0, 4])
                m.save("seed.npz")
                arch.files[nm] = dict(arch.files["seed.npz"])
                arch.calls.clear()
                try:
                    if which == "load":
                        m.load(nm)
                    else:
                        minerals.Mineral.from_file(nm)
                    return "ok", list(arch.calls)
                except ValueError:
                    return "ValueError", list(arch.calls)

            with _env(arch):
                paths, _ = sym.explore(fn, catch=(Exception,))
            p = only_path(sess, paths)
            if p.exc is not None:
                sess.prove(f"filenames [{which} {nm!r}]: unexpected {type(p.exc).__name__}: {str(p.exc)[:60]}", p.pc, z3.BoolVal(False))
                continue
            outcome, calls = p.value
            want = "ok" if nm.endswith(".npz") else "ValueError"
            sess.prove(f"filenames [{which} {nm!r}]: {'accepted' if want == 'ok' else 'rejected with ValueError before touching the archive'}", p.pc,
                       z3.BoolVal(outcome == want and (want == "ok" or not calls)))
    sess.satisfiable("filenames: reach", [good])


def replay_corrupt(case):
    """Real files: a mineral whose stored state is corrupt (unequal snapshot counts, a first or a LATER snapshot of the
    wrong size, stale grain count) must be refused with ValueError and the file system must look exactly as before:
    no new file, an existing archive byte for byte unchanged -- for whole-file and postfix saves."""
    import hashlib
    import os
    import tempfile

    import numpy as np
    import pydrex

    problems = []
    corruptions = {
        "unequal snapshot counts": lambda m: m.fractions.append(m.fractions[0]),
        "fractions[0] wrong size": lambda m: m.fractions.__setitem__(0, np.zeros(3)),
        "orientations[0] wrong size": lambda m: m.orientations.__setitem__(0, np.zeros((3, 3, 3))),
        "stale n_grains": lambda m: setattr(m, "n_grains", 4),
        "fractions[1] wrong size": lambda m: m.fractions.__setitem__(1, np.zeros(3)),
        "orientations[2] wrong size": lambda m: m.orientations.__setitem__(2, np.zeros((7, 3, 3))),
        "last fractions one short": lambda m: m.fractions.__setitem__(2, np.full(4, 0.25)),
    }
    for (label, corrupt), pf, existing in it.product(corruptions.items(), (None, "p", 0), (False, True)):
        d = tempfile.mkdtemp(prefix="c17c_")
        f = os.path.join(d, "m.npz")
        if existing:
            pydrex.Mineral(n_grains=5, seed=4).save(f, postfix=None if pf is None else "other")
        before = hashlib.sha256(open(f, "rb").read()).hexdigest() if existing else None
        m = pydrex.Mineral(n_grains=5, seed=1)
        for k in range(2):
            m.fractions.append(np.full(5, 0.2))
            m.orientations.append(m.orientations[0].copy())
        corrupt(m)
        try:
            m.save(f, postfix=pf)
            problems.append(f"{label}, postfix {pf!r}: corrupt mineral saved without error")
        except ValueError:
            pass
        except Exception as e:  # noqa: BLE001
            problems.append(f"{label}, postfix {pf!r}: {type(e).__name__} instead of ValueError")
        after = hashlib.sha256(open(f, "rb").read()).hexdigest() if os.path.exists(f) else None
        if after != before or sorted(os.listdir(d)) != (["m.npz"] if existing else []):
            problems.append(f"{label}, postfix {pf!r}, {'existing archive' if existing else 'no file yet'}: the refused save wrote to the file system")
    return {"reproduced": bool(problems), "detail": sorted(set(problems))[:8] or "corrupt minerals refused without writing"}


def default_cex(name):
    if name.startswith("corrupt"):
        return {"replay": "vf.props.C17:replay_corrupt", "case": {}, "cls": {"kind": "corrupt mineral not refused before writing"}}
    return {"replay": "vf.props.C17:replay_postfixes", "case": {}, "cls": {"kind": "save/load round trip fails"}}


def replay_postfixes(case):
    """Real files: several minerals under distinct postfixes (incl. 0, '', 'x_y'), both loaders, any order."""
    import os
    import tempfile

    import numpy as np
    import pydrex
    from pydrex import core

    d = tempfile.mkdtemp(prefix="c17_")
    f = os.path.join(d, "m.npz")
    problems = []
    ms = {}
    for i, pf in enumerate([0, "", "x_y", "7", 12, "run-1", "run1", "0.5", "05"]):
        m = pydrex.Mineral(phase=i % 2, fabric=core.MineralFabric.olivine_B if i % 2 == 0 else core.MineralFabric.enstatite_AB,
                           regime=core.DeformationRegime(i % 8), n_grains=3 + i, seed=i)
        m.fractions.append(m.fractions[0][::-1].copy())
        m.orientations.append(m.orientations[0][::-1].copy())
        # "all float64 contents": round-off just outside [0, 1], unnormalised volumes, huge / tiny / signed-zero values,
        # orientation entries beyond [-1, 1] -- persistence must not touch any bit
        odd_f = np.resize(np.array([-3e-17, 1.0000000000000002, 2.5, 1e-310, -0.0, 1e300, 0.1 + 0.2, np.nan, np.inf, -np.inf]), m.n_grains + 3)[3:]
        odd_o = np.resize(np.array([1.0000000000000002, -1.0000000000000002, 3.5, -0.0, 5e-324, 1 / 3, np.nan, -np.inf]), m.n_grains * 9).reshape(m.n_grains, 3, 3)
        m.fractions.append(odd_f)
        m.orientations.append(odd_o)
        m.save(f, postfix=pf)
        ms[pf] = m
    for pf, m in reversed(list(ms.items())):
        for which in ("from_file", "load"):
            try:
                if which == "from_file":
                    b = pydrex.Mineral.from_file(f, postfix=pf)
                else:
                    b = pydrex.Mineral(n_grains=2, seed=99)
                    b.load(f, postfix=pf)
            except Exception as e:  # noqa: BLE001
                problems.append(f"{which}(postfix={pf!r}) raised {type(e).__name__}: {e}")
                continue
            same = (int(b.phase), int(b.fabric), int(b.regime), int(b.n_grains)) == (int(m.phase), int(m.fabric), int(m.regime), int(m.n_grains)) \
                and len(b.fractions) == len(m.fractions) and all(x.tobytes() == y.tobytes() for x, y in zip(b.fractions, m.fractions)) \
                and all(x.tobytes() == y.tobytes() for x, y in zip(b.orientations, m.orientations))
            if not same:
                problems.append(f"{which}(postfix={pf!r}) did not restore the mineral")
    return {"reproduced": bool(problems), "detail": problems[:5] or "all minerals recovered"}
