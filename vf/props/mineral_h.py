"""Harness pieces around the real `Mineral.update_orientations` (LSODA = nondeterministic stub)."""

from __future__ import annotations

import numpy as np
import z3

from .. import quat, stubs, sym
from ..sarr import NpProxy, SArr, patched, sarr
from ..sym import R, real
from .common import pydrex_modules


def env(plan, log, derivatives=None, extra=()):
    m = pydrex_modules()
    proxy = NpProxy()
    triples = [(m[k], "np", proxy) for k in ("minerals", "utils", "core", "tensors")]
    triples += [
        (m["minerals"], "LSODA", stubs.make_lsoda(plan, log)),
        (m["minerals"], "la", stubs.LaStub()),
        (m["tensors"], "polar_decompose", stubs.polar_stub),
    ]
    if derivatives is not None:
        triples.append((m["core"], "derivatives", derivatives))
    triples += list(extra)
    return patched(*triples)


def sym_snapshot(tag, n_grains):
    A = np.empty((n_grains, 3, 3), dtype=object)
    for g in range(n_grains):
        for i in range(3):
            for j in range(3):
                A[g, i, j] = real(f"{tag}A{g}_{i}{j}")
    f = np.empty(n_grains, dtype=object)
    for g in range(n_grains):
        f[g] = real(f"{tag}f{g}")
    return A.view(SArr), f.view(SArr)


def make_mineral(n_grains, phase=None, fabric=None, regime=None, history=1, tag="h"):
    """Real Mineral object whose stored snapshots are arbitrary symbols (an arbitrary history)."""
    m = pydrex_modules()
    core, minerals = m["core"], m["minerals"]
    phase = core.MineralPhase.olivine if phase is None else phase
    fabric = core.MineralFabric.olivine_A if fabric is None else fabric
    regime = core.DeformationRegime.matrix_dislocation if regime is None else regime
    snaps = [sym_snapshot(f"{tag}{k}", n_grains) for k in range(history)]
    mineral = minerals.Mineral(
        phase=phase, fabric=fabric, regime=regime, n_grains=n_grains,
        fractions_init=snaps[0][1], orientations_init=snaps[0][0],
    )
    for A, f in snaps[1:]:
        mineral.orientations.append(A)
        mineral.fractions.append(f)
    return mineral, snaps


def assume_valid(snaps, orientations_in_range=True):
    """The representation invariant of stored snapshots: f_i >= 0, sum f = 1, entries in [-1, 1]."""
    c = sym.ctx()
    for A, f in snaps:
        tot = R(0)
        for x in f.flat:
            c.assume((x >= 0).z3())
            tot = tot + x
        c.assume((tot == 1).z3())
        if orientations_in_range:
            for a in A.flat:
                c.assume(z3.And((a >= -1).z3(), (a <= 1).z3()))


def default_params(**over):
    core = pydrex_modules()["core"]
    d = core.DefaultParams().as_dict()
    d.update(over)
    return d


def sym_params(n_grains, **over):
    """Parameter dictionary with symbolic p, n, lambda*, M*, chi (documented ranges)."""
    c = sym.ctx()
    p, n, lam, M, chi = (real(x) for x in ("p", "n", "lam", "Mstar", "chi"))
    for b in ((p >= 1), (p <= 2), (n >= 2), (n <= 5), (lam >= 0), (M >= 0), (M <= 200), (chi >= 0), (chi < 1)):
        c.assume(b.z3())
    d = default_params(
        stress_exponent=p, deformation_exponent=n, nucleation_efficiency=lam, gbm_mobility=M, gbs_threshold=chi,
        # never read by the update (the mineral's own n_grains counts): deliberately different from it
        number_of_grains=n_grains + 1,
    )
    d.update(over)
    return d


def deriv_stub_factory(log, n_grains):
    """core.derivatives replaced by 'an arbitrary function of its arguments' (records the call)."""

    def derivatives(**kw):
        k = len(log)
        log.append(kw)
        dA = np.empty((n_grains, 3, 3), dtype=object)
        for g in range(n_grains):
            for i in range(3):
                for j in range(3):
                    dA[g, i, j] = real(f"dA!{k}!{g}_{i}{j}")
        df = np.empty(n_grains, dtype=object)
        for g in range(n_grains):
            df[g] = real(f"df!{k}!{g}")
        return dA.view(SArr), df.view(SArr)

    return derivatives
