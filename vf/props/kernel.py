"""Shared symbolic exploration of the real grain kernel `core._get_rotation_and_strain`."""

from __future__ import annotations

import time

import numpy as np
import z3

from .. import poly, quat, sym
from ..sarr import SArr, sarr
from ..sym import R, real
from .common import np_installed, pydrex_modules

FABRICS = [
    ("olivine", "olivine_A"),
    ("olivine", "olivine_B"),
    ("olivine", "olivine_C"),
    ("olivine", "olivine_D"),
    ("olivine", "olivine_E"),
    ("enstatite", "enstatite_AB"),
]


def enums():
    core = pydrex_modules()["core"]
    return core.MineralPhase, core.MineralFabric, core.DeformationRegime


def param_symbols(ctx=None, assume=True):
    """p in [1,2], n in [2,5], lambda* in [0,10] (the documented physical ranges; n >= p)."""
    p, n, lam = real("p"), real("n"), real("lam")
    cons = [(p >= 1).z3(), (p <= 2).z3(), (n >= 2).z3(), (n <= 5).z3(), (lam >= 0).z3(), (lam <= 10).z3()]
    if assume:
        for c in cons:
            sym.ctx().assume(c)
    return p, n, lam, cons


def explore_kernel(sess, phase_name, fabric_name, free_A=False, max_paths=4000, feas_ms=300, extra=None, deadline=None):
    """Explore every feasible path of the real _get_rotation_and_strain for one (phase, fabric).

    Inputs: A = R(q) with |q| = 1 (or 9 free reals if free_A), L free 3x3, D = (L + L^T)/2,
    p, n, lambda in their ranges. Returns (paths, info, inputs) where path.value = (dA, E).
    """
    mods = pydrex_modules()
    core = mods["core"]
    P, F, _ = enums()
    phase, fabric = getattr(P, phase_name), getattr(F, fabric_name)
    sess.encode(
        core.get_crss, core._get_slip_invariants, core._get_slip_rates_olivine, core._get_deformation_rate,
        core._get_slip_rate_softest, core._get_orientation_change, core._get_strain_energy, core._get_rotation_and_strain,
    )
    inputs = {}

    def fn():
        if free_A:
            A = quat.symmat("a")
            q = None
        else:
            q, unit = quat.quat("q")
            sym.ctx().assume(unit)
            A = quat.rotmat(q)
        L = quat.symmat("L")
        D = (L + L.transpose()) / 2
        p, n, lam, _ = param_symbols()
        inputs.update(q=q, A=A, L=L, D=D, p=p, n=n, lam=lam)
        if extra:
            extra(inputs)
        return core._get_rotation_and_strain(phase, fabric, A, D, L, p, n, lam)

    t0 = time.time()
    with np_installed(core):
        paths, info = sym.explore(fn, max_paths=max_paths, feas_ms=feas_ms, deadline=deadline)
    info["explore_s"] = round(time.time() - t0, 1)
    sess.paths[f"kernel[{fabric_name}]"] = {
        "feasible_paths": len(paths), "runs": info["runs"], "pruned_infeasible": info["infeasible"],
        "feasibility_queries": info["feas_queries"], "explore_s": info["explore_s"],
        "exception_paths": sum(1 for p in paths if p.exc is not None),
    }
    if info["truncated"]:
        sess.truncated = True
    for u in info["unsupported"]:
        sess.unsupported.append(f"{fabric_name}: {u}")
    return paths, info, inputs


AXIS_QUATS = None


def shaped_models(sess, name, constraints, q, L, tries=("axis", "half", "free"), timeout_ms=20000):
    """Find a model of `constraints`, preferring inputs that are exactly representable as floats
    (axis-aligned / half-integer quaternions, small integer L) so that replay reproduces exactly."""
    for how in tries:
        extra = []
        if q is not None:
            if how == "axis":
                extra += [z3.Or(c.z3() == 0, c.z3() == 1, c.z3() == -1) for c in q]
            elif how == "half":
                h = z3.Q(1, 2)
                extra += [z3.Or(c.z3() == 0, c.z3() == 1, c.z3() == -1, c.z3() == h, c.z3() == -h) for c in q]
        if how != "free" and L is not None:
            for c in np.asarray(L, dtype=object).flat:
                extra.append(z3.Or(*[c.z3() == v for v in (0, 1, -1, 2, -2)]))
        s = z3.Solver()
        s.set("timeout", timeout_ms)
        for c in list(constraints) + extra:
            s.add(c)
        r = s.check()
        if r == z3.sat:
            return s.model(), how
    return None, None


def sample_witness(paths, inp, tries=10, seed=0, timeout_ms=2000, want=1, skip=lambda p: False):
    """Reachability witnesses by concretisation: fix q (random rational unit quaternion), L (small
    integers) and the parameters; the input then satisfies exactly one path condition, and z3 only
    has to complete the remaining (UF-result) variables. Returns list of (path index, model)."""
    import random
    from fractions import Fraction

    rng = random.Random(seed)
    found = []
    used = set()
    for _ in range(tries):
        a, b, c, d = (Fraction(rng.randint(-6, 6), rng.randint(1, 4)) for _ in range(4))
        nn = a * a + b * b + c * c + d * d
        if nn == 0:
            continue
        qv = [(a * a - b * b - c * c - d * d) / nn, 2 * a * b / nn, 2 * a * c / nn, 2 * a * d / nn]
        fix = []
        if inp.get("q") is not None:
            fix += [sq.z3() == z3.Q(v.numerator, v.denominator) for sq, v in zip(inp["q"], qv)]
        fix += [cell.z3() == rng.randint(-3, 3) for cell in np.asarray(inp["L"], dtype=object).flat]
        fix += [inp["p"].z3() == z3.Q(3, 2), inp["n"].z3() == z3.Q(7, 2), inp["lam"].z3() == 5]
        for k, p in enumerate(paths):
            if k in used or p.exc is not None or skip(p):
                continue
            s = z3.Solver()
            s.set("timeout", timeout_ms)
            for c_ in fix:
                s.add(c_)
            for c_ in p.pc:
                s.add(c_)
            if s.check() == z3.sat:
                found.append((k, s.model()))
                used.add(k)
                break
        if len(found) >= want:
            break
    return found
