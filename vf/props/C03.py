"""C03 -- rates conserve the texture manifold: skew spins, zero net volume change, no exceptions."""

from __future__ import annotations

import numpy as np
import z3

from .. import poly, quat, solve, sym
from ..sarr import SArr, patched, sarr
from ..sym import R, real
from . import kernel
from .common import all_eq, eq, main_path, np_installed, pydrex_modules, sample, only_path

TIMEOUT_MS = {"quick": 60000, "thorough": 300000}


def tasks(tier):
    t = [("t_kernel", {"phase": ph, "fabric": fb}) for ph, fb in kernel.FABRICS]
    t += [("t_spin_contract", {})]
    for n in ((3,) if tier == "quick" else (1, 2, 4, 6)):
        t += [("t_aggregate", {"regime": "matrix_dislocation", "n_grains": n}), ("t_aggregate", {"regime": "frictional_yielding", "n_grains": n})]
    return t


def _case(model, inputs, phase, fabric, how):
    q = [float(solve.model_value(model, c)) for c in inputs["q"]]
    L = [float(solve.model_value(model, c)) for c in inputs["L"].flat]
    return {
        "phase": phase, "fabric": fabric, "q": q, "L": L,
        "p": float(solve.model_value(model, inputs["p"])), "n": float(solve.model_value(model, inputs["n"])),
        "lam": float(solve.model_value(model, inputs["lam"])), "model_shape": how,
    }


def t_kernel(sess, phase, fabric, glue_only=False):
    sess.bounds["kernel"] = "one grain, A = R(q) for all unit quaternions q, L any real 3x3, p in [1,2], n in [2,5], lambda* in [0,10]; all feasible paths of the real kernel per fabric"
    sess.assume_env("x ** y with non-integer y and np.exp are uninterpreted functions constrained by: pow >= 0, pow = 0 iff base = 0 (y > 0), exp > 0 (Ackermannised)")
    sess.outside_claim("float rounding / fastmath; n_grains > 4 (the per-grain loop body is uniform in the grain index)")
    core = pydrex_modules()["core"]
    spin_calls = []

    def spin_stub(orientation, velocity_gradient, deformation_rate, slip_rate_softest):
        # contract of the real _get_orientation_change (decided by t_spin_contract): for the given
        # orientation the result is orientation composed with a skew spin; here an arbitrary matrix
        spin_calls.append((orientation, velocity_gradient, deformation_rate, slip_rate_softest))
        return quat.symmat("dAstub")

    with patched((core, "_get_orientation_change", spin_stub)):
        paths, info, inp = kernel.explore_kernel(sess, phase, fabric, extra=lambda i: spin_calls.clear() or i.update(spin_calls=spin_calls))
    if not paths:
        raise sym.HarnessError("no feasible path")
    A = inp["A"]
    stub_out = quat.symmat("dAstub")
    seen = set()
    n_ob = 0
    reach = 0
    tried = 0

    def is_zero_path(dA):
        return all(R(c).concrete for c in np.asarray(dA, dtype=object).flat)
    for k, p in enumerate(paths):
        tag = f"{fabric}/path{k}"
        if p.exc is not None and not isinstance(p.exc, sym.PathAbort):
            if isinstance(p.exc, sym.Unsupported):
                # outside the modelled fragment (e.g. inf / x): acceptable only if the path is infeasible
                q = sess.prove(f"{tag}: path reaching an unmodelled operation ({p.exc}) is infeasible", p.pc, z3.BoolVal(False))
                continue
            # the real code raises on this path: any model of the path condition is a failing input
            m, how = kernel.shaped_models(sess, tag, p.pc, inp["q"], inp["L"])
            q = sess.prove(f"{tag}: kernel raises {type(p.exc).__name__}", p.pc, z3.BoolVal(False))
            if m is not None:
                sess.cex.append({
                    "name": q.name, "replay": "vf.props.C03:replay_kernel", "case": _case(m, inp, phase, fabric, how),
                    "cls": {"kind": "exception", "exc": type(p.exc).__name__, "fabric": fabric},
                })
            continue
        # definedness obligations (division by zero, 0**negative, sqrt/arccos domain)
        for ob in ([] if glue_only else p.obligations):  # glue_only: C01 re-proves only the contract its kernel stand-in assumes
            key = (ob.site, ob.cond.get_id(), tuple(c.get_id() for c in ob.pc))
            if key in seen:
                continue
            seen.add(key)
            n_ob += 1
            site = ob.site or ("?", "?", "?")
            name = f"{fabric}: {ob.kind} cannot happen at {site[0]}: `{site[1]}` [{n_ob}]"
            q = sess.prove(name, ob.pc, ob.cond)
            if q.verdict == "sat":
                m, how = kernel.shaped_models(sess, name, ob.pc + [z3.Not(ob.cond)], inp["q"], inp["L"])
                m = m or q.model
                sess.cex.append({
                    "name": name, "replay": "vf.props.C03:replay_kernel", "case": _case(m, inp, phase, fabric, how),
                    "cls": {"kind": ob.kind, "site_func": site[0], "site_code": site[1]},
                })
        if isinstance(p.exc, sym.PathAbort):
            continue
        dA, E = p.value
        dA = sarr(dA, copy=False)
        # (a) glue: the returned rate is either exactly zero (no resolvable slip) or exactly the
        # result of _get_orientation_change called with this grain's own orientation matrix, whose
        # contract (A composed with a skew spin, for every L, G, gamma0) is decided in t_spin_contract
        is_zero = all_eq(dA, sarr(np.zeros((3, 3))))
        is_stub = all_eq(dA, stub_out)
        sess.prove(f"{tag}: returned rate is 0 or the spin routine's result", p.pc, z3.Or(is_zero, is_stub))
    wit = kernel.sample_witness(paths, inp, seed=solve.SEED, want=2,
                                skip=lambda p: p.value is None or is_zero_path(p.value[0]))
    reach = len(wit)
    for k, m in wit:
        sample(sess, obligation="skew spin / definedness", path=f"{fabric}/path{k}", decisions="".join("T" if d else "F" for d in paths[k].decisions),
               witness_q=[str(m.eval(c.z3(), model_completion=True)) for c in inp["q"]])
    sess.reach.append(solve.QueryResult(f"{fabric}: a non-trivial kernel path has a concrete witness", "sat" if reach else "unknown", None, 0.0))
    sess.notes.append(f"{fabric}: {len(paths)} feasible paths, {n_ob} distinct definedness obligations, {reach} path witnesses")


def t_spin_contract(sess):
    """Real _get_orientation_change on A = R(q), arbitrary L, G (9 free reals each) and gamma0:
    d/dt(A A^T) = dA A^T + A dA^T = 0 and A^T dA is skew, i.e. dA = A . Omega with Omega^T = -Omega."""
    core = pydrex_modules()["core"]
    sess.encode(core._get_orientation_change)

    def fn():
        q, unit = quat.quat("q")
        sym.ctx().assume(unit)
        A = quat.rotmat(q)
        L = quat.symmat("L")
        G = quat.symmat("G")
        g0 = real("g0")
        return q, A, core._get_orientation_change(A, L, G, g0)

    with np_installed(core):
        paths, info = sym.explore(fn)
    p = main_path(sess, paths, "spin contract")
    if p is None:
        return
    q, A, dA = p.value
    rules = poly.Rules().unit_quat(q)
    Z = sarr(np.zeros((3, 3)))
    sess.satisfiable("spin contract: reach", p.pc)
    sess.prove_nf("spin contract: dA.A^T + A.dA^T = 0 for all q, L, G, gamma0", p.pc, rules, dA @ A.transpose() + A @ dA.transpose(), Z)
    Om = A.transpose() @ dA
    sess.prove_nf("spin contract: A^T.dA is skew (dA = A.Omega, Omega^T = -Omega) for |q| = 1", p.pc, rules, Om + Om.transpose(), Z)
    sess.prove_nf("spin contract: A.(A^T.dA) = dA for |q| = 1", p.pc, rules, A @ Om, dA)
    sample(sess, obligation="spin contract", Omega01=str(Om[0, 1])[:200])


def replay_kernel(case):
    """Compiled public API: does pydrex.core.derivatives raise / return non-finite values?"""
    import numpy as np
    import pydrex
    from pydrex import core

    from vf.quat import rotmat_float

    A = rotmat_float(case["q"])
    A = np.where(np.abs(A) < 1e-15, 0.0, A)
    L = np.array(case["L"], dtype=float).reshape(3, 3)
    D = (L + L.T) / 2
    phase = getattr(core.MineralPhase, case["phase"])
    fabric = getattr(core.MineralFabric, case["fabric"])
    out = {}
    for regime in (core.DeformationRegime.matrix_dislocation, core.DeformationRegime.frictional_yielding):
        try:
            dA, df = core.derivatives(
                regime, phase, fabric, 1, A.reshape(1, 3, 3).copy(), np.array([1.0]), D, L, np.zeros((3, 3)),
                case["p"], case["n"], case["lam"], 125.0, 1.0,
            )
            ok = bool(np.all(np.isfinite(dA)) and np.all(np.isfinite(df)))
            out[int(regime)] = "finite" if ok else f"non-finite: {dA.ravel().tolist()} {df.tolist()}"
        except Exception as e:  # noqa: BLE001
            out[int(regime)] = f"raised {type(e).__name__}: {e}"
    bad = [v for v in out.values() if v != "finite"]
    return {"reproduced": bool(bad), "detail": out, "inputs": {"A": A.tolist(), "L": L.tolist()}}


# ---------------------------------------------------------------------------------------


def t_aggregate(sess, regime, n_grains):
    mods = pydrex_modules()
    core = mods["core"]
    P, F, Rg = kernel.enums()
    sess.encode(core.derivatives)
    sess.bounds["aggregate"] = f"n_grains = {n_grains}; per-grain kernel replaced by arbitrary (dA_i, E_i) (its contract is decided by t_kernel)"
    reg = getattr(Rg, regime)
    damp = R(1) if regime == "matrix_dislocation" else R(0.3)
    calls = []

    cells = {}

    def stub(phase, fabric, orientation, strain_rate, velocity_gradient, p, n, lam):
        # which grain: the one whose orientation cells were handed in (a tree that skips grains must not shift the labels)
        i = cells.get(id(np.asarray(orientation, dtype=object).flat[0]), len(calls) % n_grains)
        calls.append((orientation, strain_rate, velocity_gradient, p, n, lam))
        return quat.symmat(f"dA{i}_"), real(f"E{i}")

    def fn():
        calls.clear()
        A = np.empty((n_grains, 3, 3), dtype=object)
        for i in range(n_grains):
            A[i] = quat.symmat(f"A{i}_").view(np.ndarray)
        A = A.view(SArr)
        cells.clear()
        cells.update({id(A[i].flat[0]): i for i in range(n_grains)})
        f = quat.symvec("f", n_grains)
        L = quat.symmat("L")
        D = (L + L.transpose()) / 2
        W = quat.symmat("W")
        p, n, lam, M, phi, a = (real(x) for x in ("p", "n", "lam", "M", "phi", "a"))
        args = dict(regime=reg, phase=P.olivine, fabric=F.olivine_A, n_grains=n_grains, orientations=A, fractions=f,
                    strain_rate=D, velocity_gradient=L, deformation_gradient_spin=W, stress_exponent=p,
                    deformation_exponent=n, nucleation_efficiency=lam, gbm_mobility=M, volume_fraction=phi)
        o1 = core.derivatives(**args)
        o2 = core.derivatives(**{**args, "gbm_mobility": a * M})
        o3 = core.derivatives(**{**args, "volume_fraction": a * phi})
        o4 = core.derivatives(**{**args, "gbm_mobility": 0})
        return dict(A=A, f=f, L=L, D=D, p=p, n=n, lam=lam, M=M, phi=phi, a=a, o1=o1, o2=o2, o3=o3, o4=o4, calls=list(calls))

    with np_installed(core), patched((core, "_get_rotation_and_strain", stub)):
        paths, info = sym.explore(fn, catch=(Exception,), max_paths=48)
    if info.get("truncated"):
        sess.truncated = True
    if not paths:
        raise sym.HarnessError("no feasible path through derivatives")
    # the pinned source has exactly one path here; a tree that branches on the volumes / energies (a shortcut for
    # "consumed" grains, say) gets every claim proved on every one of its paths -- never a harness error
    for k, p in enumerate(paths):
        _aggregate_claims(sess, p, regime if len(paths) == 1 else f"{regime} [path {k}: {''.join('T' if d else 'F' for d in p.decisions)}]", regime, n_grains, damp)


def _aggregate_claims(sess, p, tag, regime, n_grains, damp):
    if p.exc is not None:
        sess.prove(f"{tag}: derivatives raises {type(p.exc).__name__}: {str(p.exc)[:80]}", p.pc, z3.BoolVal(False))
        return
    v = p.value
    f, M, phi, a = v["f"], v["M"], v["phi"], v["a"]
    dA, df = v["o1"]
    E = [real(f"E{i}") for i in range(n_grains)]
    simplex = [(x >= 0).z3() for x in f] + [eq(sum(f, R(0)), 1)]
    pc = p.pc
    if tag == regime:
        sess.satisfiable(f"{tag}: reach", pc + simplex + [(M > 0).z3(), (phi > 0).z3()])
    elif sess.path_infeasible(f"{tag}: path is infeasible", pc + simplex):
        return
    sess.prove(f"{tag}: sum f = 1 => sum f' = 0", pc + [eq(sum(f, R(0)), 1)], eq(sum(df, R(0)), 0))
    for i in range(n_grains):
        sess.prove(f"{tag}: f_{i} = 0 => f'_{i} = 0", pc + [eq(f[i], 0)], eq(df[i], 0))
    sess.prove(f"{tag}: f' linear in M* (f'(a M*) = a f'(M*))", pc, all_eq(v["o2"][1], a * df))
    sess.prove(f"{tag}: f' linear in phase fraction (f'(a phi) = a f'(phi))", pc, all_eq(v["o3"][1], a * df))
    sess.prove(f"{tag}: M* = 0 => f' = 0", pc, all_eq(v["o4"][1], sarr(np.zeros(n_grains))))
    mean = sum((f[j] * E[j] for j in range(n_grains)), R(0))
    for i in range(n_grains):
        pos = [(f[i] > 0).z3(), (M > 0).z3(), (phi > 0).z3()]
        sess.prove(f"{tag}: grain {i} grows iff E_{i} < volume-weighted mean energy", pc + simplex + pos, (df[i] > 0).z3() == (E[i] < mean).z3())
    # boundary-migration law itself (also used by C02)
    law = [eq(df[i], damp * phi * M * f[i] * (mean - E[i])) for i in range(n_grains)]
    sess.prove(f"{tag}: f'_i = {float(damp.v)} phi M* f_i (E_mean - E_i)", pc, z3.And(*law))
    # orientation rate of grain i is the kernel's result for grain i (damped in the yielding regime)
    want = np.empty((n_grains, 3, 3), dtype=object)
    for i in range(n_grains):
        want[i] = (damp * quat.symmat(f"dA{i}_")).view(np.ndarray)
    sess.prove(f"{tag}: orientation rate of grain i = {float(damp.v)} x kernel(grain i)", pc, all_eq(dA, want))
    # arguments handed to the kernel: grain i's own orientation, the shared D, L, p, n, lambda -- nothing else
    ok = []
    for i, c in enumerate(v["calls"][:n_grains]):
        ok.append(all_eq(c[0], v["A"][i]))
        ok.append(all_eq(c[1], v["D"]))
        ok.append(all_eq(c[2], v["L"]))
        ok += [eq(c[3], v["p"]), eq(c[4], v["n"]), eq(c[5], v["lam"])]
    sess.prove(f"{tag}: kernel called with grain i's own orientation and the shared D, L, p, n, lambda", pc, z3.And(*ok))
    sess.prove(f"{tag}: the kernel is evaluated once per grain and call", pc, z3.BoolVal(len(v["calls"]) == 4 * n_grains))
    sample(sess, obligation="zero net volume change", regime=regime, sum_df=str(sum(df, R(0)))[:300])


def default_cex(name):
    """Generic public-API replay for verdicts that carry no more specific counterexample."""
    return {"replay": "vf.props.replays:c03_rates", "case": {}, "cls": {"kind": "rates do not conserve the texture manifold"}}
