"""C10 -- the Voigt average is the volume-weighted mean of rotated single-crystal stiffnesses."""

from __future__ import annotations

import itertools as it

import numpy as np
import z3

from .. import poly, quat, solve, sym
from ..sarr import SArr, patched, sarr
from ..sym import R, real, symint
from . import kernel
from . import mineral_h as mh
from .C11 import _mode_rotate, _voigt_index
from .common import all_eq, eq, np_installed, pydrex_modules, sample, only_path

TIMEOUT_MS = {"quick": 90000, "thorough": 300000}

CONFIGS = {
    "olivine only": (("olivine",), ("olivine",)),
    "enstatite only": (("enstatite",), ("enstatite",)),
    "(ol, en) minerals [ol, en]": (("olivine", "enstatite"), ("olivine", "enstatite")),
    "(ol, en) minerals [en, ol]": (("olivine", "enstatite"), ("enstatite", "olivine")),
    "(en, ol) minerals [ol, en]": (("enstatite", "olivine"), ("olivine", "enstatite")),
    "(en, ol) minerals [en, ol]": (("enstatite", "olivine"), ("enstatite", "olivine")),
}


def tasks(tier):
    t = [("t_average", {"config": c, "custom": False, "n_grains": 1, "n_steps": 1}) for c in CONFIGS]
    t += [("t_average", {"config": "(en, ol) minerals [ol, en]", "custom": True, "n_grains": 1, "n_steps": 1}),
          ("t_average", {"config": "(ol, en) minerals [ol, en]", "custom": False, "n_grains": 2, "n_steps": 2}),
          ("t_corotation", {}), ("t_aligned_grain", {}), ("t_rejects", {})]
    if tier == "thorough":
        t += [("t_average", {"config": c, "custom": True, "n_grains": 2, "n_steps": 2}) for c in CONFIGS]
    return t


def _to_tensor(M):
    T = np.empty((3, 3, 3, 3), dtype=object)
    for a, b, c, d in it.product(range(3), repeat=4):
        T[a, b, c, d] = M[_voigt_index(a, b), _voigt_index(c, d)]
    return T


PAIRS = [(0, 0), (1, 1), (2, 2), (1, 2), (0, 2), (0, 1)]


def _to_voigt(T):
    M = np.empty((6, 6), dtype=object)
    for i, (a, b) in enumerate(PAIRS):
        for j, (c, d) in enumerate(PAIRS):
            M[i, j] = T[a, b, c, d]
    return M


def _sym66(prefix):
    a = np.empty((6, 6), dtype=object)
    for i in range(6):
        for j in range(6):
            a[i, j] = real(f"{prefix}{min(i, j)}{max(i, j)}")
    return a.view(SArr)


def _real_stiffness():
    """StiffnessTensors() built with the real numpy (its type check compares against np.ndarray)."""
    minerals = pydrex_modules()["minerals"]
    with patched((minerals, "np", np)):
        return minerals.StiffnessTensors()


def _setup(config, custom, n_grains, n_steps, frame=None):
    """Build real Mineral objects with symbolic snapshots and call the real voigt_averages."""
    mods = pydrex_modules()
    minerals, core = mods["minerals"], mods["core"]
    P = core.MineralPhase
    assemblage, order = CONFIGS[config]
    phis = {}
    c = sym.ctx()
    if len(assemblage) == 1:
        phis[assemblage[0]] = R(1)
    else:
        phi = real("phi")
        c.assume(z3.And((phi >= 0).z3(), (phi <= 1).z3()))
        phis[assemblage[0]], phis[assemblage[1]] = phi, 1 - phi
    st = _real_stiffness()
    stiff = {}
    if custom:
        # the record is used once with its built-in values and THEN edited in place (the documented way to customise
        # it): anything a call leaves behind on the record (a memoised 4th-order tensor, say) must not survive the edit
        m0 = minerals.Mineral(phase=P.olivine, fabric=core.MineralFabric.olivine_A, n_grains=1, fractions_init=sarr(np.array([R(1)], dtype=object)),
                              orientations_init=sarr(np.array(np.eye(3).reshape(1, 3, 3), dtype=object)))
        minerals.voigt_averages([m0], [P.olivine], [R(1)], st)
        st.olivine = _sym66("Col")
        st.enstatite = _sym66("Cen")
    stiff["olivine"], stiff["enstatite"] = sarr(st.olivine), sarr(st.enstatite)
    ms, data, quats = [], {}, []
    for name in order:
        snaps = []
        for k in range(n_steps):
            A = np.empty((n_grains, 3, 3), dtype=object)
            for g in range(n_grains):
                q, unit = quat.quat(f"q_{name[:2]}{k}{g}")
                c.assume(unit)
                quats.append(q)
                Ag = quat.rotmat(q)
                if frame is not None:
                    Ag = Ag @ frame.transpose()
                A[g] = Ag.view(np.ndarray)
            f = np.empty(n_grains, dtype=object)
            tot = R(0)
            for g in range(n_grains):
                f[g] = real(f"f_{name[:2]}{k}{g}")
                c.assume((f[g] >= 0).z3())
                tot = tot + f[g]
            c.assume((tot == 1).z3())
            snaps.append((A.view(SArr), f.view(SArr)))
        m = minerals.Mineral(phase=getattr(P, name), fabric=core.MineralFabric.olivine_A if name == "olivine" else core.MineralFabric.enstatite_AB,
                             n_grains=n_grains, fractions_init=snaps[0][1], orientations_init=snaps[0][0])
        for A, f in snaps[1:]:
            m.orientations.append(A)
            m.fractions.append(f)
        ms.append(m)
        data[name] = snaps
    if custom:
        # an earlier call in the same process with another record of the same class (the built-in values) must not
        # leak into this one: no state is shared between calls
        minerals.voigt_averages(ms, [getattr(P, a) for a in assemblage], [phis[a] for a in assemblage], _real_stiffness())
    out = minerals.voigt_averages(ms, [getattr(P, a) for a in assemblage], [phis[a] for a in assemblage], st)
    return out, order, data, phis, stiff, quats


def _oracle(order, data, phis, stiff, step):
    """sum over minerals and grains of phi_phase f_g rotate(C_phase, A_g^T), stiffness by phase identity."""
    tot = np.zeros((6, 6), dtype=object)
    for name in order:
        A, f = data[name][step]
        T = _to_tensor(stiff[name])
        for g in range(A.shape[0]):
            rot = _mode_rotate(T, np.asarray(A[g], dtype=object).T)
            tot = tot + _to_voigt(rot) * (f[g] * phis[name])
    return tot


def t_average(sess, config, custom, n_grains, n_steps):
    mods = pydrex_modules()
    minerals, tensors = mods["minerals"], mods["tensors"]
    sess.encode(minerals.voigt_averages, minerals.StiffnessTensors.__iter__, tensors.rotate, tensors.voigt_to_elastic_tensor, tensors.elastic_tensor_to_voigt)
    sess.bounds["average"] = "1-2 grains per mineral, 1-2 snapshots, A_g = R(q_g) over all unit quaternions, symbolic volumes and phase fractions on the simplex, built-in and fully symbolic (21-parameter) stiffnesses"

    def fn():
        return _setup(config, custom, n_grains, n_steps)

    with np_installed(minerals, tensors):
        paths, info = sym.explore(fn, catch=(Exception,))
    tag = f"average[{config}{', custom C' if custom else ''}, {n_grains} grain(s), {n_steps} step(s)]"
    if not paths:
        raise sym.HarnessError(f"{tag}: no path")
    sess.paths[tag] = {"paths": len(paths)}
    bad = False
    for pi, p in enumerate(paths[:12]):
        pt = tag if len(paths) == 1 else f"{tag} path {pi}"
        if p.exc is not None:
            sess.prove(f"{pt}: raises {type(p.exc).__name__}: {str(p.exc)[:60]}", p.pc, z3.BoolVal(False), timeout_ms=10000)
            continue
        out, order, data, phis, stiff, quats = p.value
        rules = poly.Rules()
        for q in quats:
            rules.unit_quat(q)
        if pi == 0:
            sess.satisfiable(f"{tag}: reach", p.pc)
        for k in range(n_steps):
            want = _oracle(order, data, phis, stiff, k)
            name = f"{pt}: step {k}: result = sum_m phi_phase(m) sum_g f_g rotate(C_phase(m), A_g^T)"
            q = sess.prove_nf(name, p.pc, rules, out[k], want)
            if not q.holds:
                ce = {"name": name, "case": {"assemblage": CONFIGS[config][0], "minerals": list(order), "n_steps": n_steps, "n_grains": max(n_grains, 3)},
                      "cls": {"kind": "Voigt average is not the phase-indexed volume-weighted sum of rotated tensors", "assemblage": list(CONFIGS[config][0])}}
                if not bad:
                    bad = name
                    ce["replay"] = "vf.props.C10:replay_generic" if custom else "vf.props.C10:replay_average"
                else:
                    ce["same_as"] = bad
                sess.cex.append(ce)
            if q.holds:
                sess.prove_nf(f"{pt}: step {k}: result is symmetric", p.pc, rules, out[k], out[k].transpose())

                def nineK(M):
                    return sum((M[i, j] for i in range(3) for j in range(3)), R(0))

                def dev(M):
                    return sum((M[i, i] for i in range(3)), R(0)) + 2 * sum((M[i, i] for i in range(3, 6)), R(0))

                wk = sum((phis[n_] * nineK(stiff[n_]) for n_ in order), R(0))
                wd = sum((phis[n_] * dev(stiff[n_]) for n_ in order), R(0))
                # sum f = 1 is linear: eliminate the last volume of each snapshot so the normal form sees it
                r2 = poly.Rules()
                for q_ in quats:
                    r2.unit_quat(q_)
                for n_ in order:
                    A, f = data[n_][k]
                    r2.alias(f[-1], 1 - sum((f[g] for g in range(len(f) - 1)), R(0)))
                sess.prove_nf(f"{pt}: step {k}: 9K = C_iijj and C_ijij are the phase-weighted single-crystal values, independent of the texture", p.pc, r2,
                              [nineK(out[k]), dev(out[k])], [wk, wd])
    if len(paths) > 12:
        sess.truncated = True
    out = paths[0].value[0] if paths[0].value else None
    sample(sess, obligation="Voigt average", config=tag, paths=len(paths))


def replay_lookup(case):
    import numpy as np
    import pydrex
    from pydrex import core, minerals

    P = core.MineralPhase
    ms = []
    for name in case["minerals"]:
        ms.append(pydrex.Mineral(phase=getattr(P, name), fabric=core.MineralFabric.olivine_A if name == "olivine" else core.MineralFabric.enstatite_AB,
                                 n_grains=1, fractions_init=np.array([1.0]), orientations_init=np.eye(3).reshape(1, 3, 3)))
    asm = [getattr(P, a) for a in case["assemblage"]]
    fr = [1.0] if len(asm) == 1 else [0.25, 0.75]
    out = pydrex.voigt_averages(ms, asm, fr)[0]
    st = minerals.StiffnessTensors()
    want = sum(fr[asm.index(m.phase)] * getattr(st, m.phase.name) for m in ms)
    bad = not np.allclose(out, want, rtol=1e-12, atol=1e-9)
    return {"reproduced": bool(bad), "detail": {"got_C11": float(out[0, 0]), "expected_C11": float(want[0, 0])}}


def replay_average(case):
    """Public API against an independent numpy (einsum) oracle on random textures / volumes."""
    import numpy as np
    import pydrex
    from pydrex import core, minerals
    from scipy.spatial.transform import Rotation

    P = core.MineralPhase
    rng = np.random.default_rng(5)
    ns, ng = case["n_steps"], case["n_grains"] + 40
    st = minerals.StiffnessTensors()
    asm = [getattr(P, a) for a in case["assemblage"]]
    fr = [1.0] if len(asm) == 1 else [0.3, 0.7]
    ms = []
    for name in case["minerals"]:
        A = [Rotation.random(ng, random_state=int(rng.integers(1 << 30))).as_matrix() for _ in range(ns)]
        f = []
        for _ in range(ns):  # one dominant grain, ordinary grains and many tiny (but non-zero) ones
            w = np.r_[rng.dirichlet(np.ones(ng - 40)) * 0.99996, np.full(40, 1e-6)]
            f.append(w / w.sum())
        m = pydrex.Mineral(phase=getattr(P, name), fabric=core.MineralFabric.olivine_A if name == "olivine" else core.MineralFabric.enstatite_AB,
                           n_grains=ng, fractions_init=f[0], orientations_init=A[0])
        m.fractions, m.orientations = list(f), list(A)
        ms.append(m)
    out = pydrex.voigt_averages(ms, asm, fr)

    def tens(M):
        T = np.empty((3, 3, 3, 3))
        for a, b, c, d in it.product(range(3), repeat=4):
            T[a, b, c, d] = M[_voigt_index(a, b), _voigt_index(c, d)]
        return T

    worst = 0.0
    for k in range(ns):
        want = np.zeros((6, 6))
        for m in ms:
            T = tens(getattr(st, m.phase.name))
            for g in range(ng):
                Rm = m.orientations[k][g].T
                rot = np.einsum("ia,jb,kc,ld,abcd->ijkl", Rm, Rm, Rm, Rm, T)
                want += np.array([[rot[a, b, c, d] for (c, d) in PAIRS] for (a, b) in PAIRS]) * m.fractions[k][g] * fr[asm.index(m.phase)]
        worst = max(worst, float(np.abs(out[k] - want).max()))
    if worst > 1e-8:
        return {"reproduced": True, "detail": {"max_abs_difference_GPa": worst}}
    # nothing on this configuration: the wider sweep (custom tensors after built-in ones, 1-3 minerals, mismatches)
    return replay_generic(case)


def t_aligned_grain(sess):
    """One aligned grain (A = I), f = 1, phi = 1 returns the single-crystal tensor (symbolic custom C)."""
    mods = pydrex_modules()
    minerals, tensors, core = mods["minerals"], mods["tensors"], mods["core"]
    for name in ("olivine", "enstatite"):
        def fn():
            st = _real_stiffness()
            st.olivine, st.enstatite = _sym66("Col"), _sym66("Cen")
            m = minerals.Mineral(phase=getattr(core.MineralPhase, name), n_grains=1, fractions_init=sarr(np.array([1.0])),
                                 orientations_init=sarr(np.eye(3).reshape(1, 3, 3)))
            return st, minerals.voigt_averages([m], [getattr(core.MineralPhase, name)], [1.0], st)

        with np_installed(minerals, tensors):
            paths, _ = sym.explore(fn, catch=(Exception,))
        p = only_path(sess, paths)
        if p.exc is not None:
            raise sym.HarnessError(f"aligned grain: {p.exc}")
        st, out = p.value
        nm = f"aligned grain [{name} only]: the single-crystal tensor of that phase is returned"
        q = sess.prove(nm, p.pc, all_eq(out[0], getattr(st, name)))
        if not q.holds:
            sess.cex.append({"name": nm, "replay": "vf.props.C10:replay_lookup", "case": {"assemblage": (name,), "minerals": [name]},
                             "cls": {"kind": "stiffness looked up by list position", "assemblage": [name]}})
    sess.satisfiable("aligned grain: reach", p.pc)


def t_corotation(sess):
    """avg(A Q^T) = rotate(avg(A), Q), Q a rotation about each coordinate axis (generators of SO(3))."""
    mods = pydrex_modules()
    minerals, tensors = mods["minerals"], mods["tensors"]
    sess.bounds["corotation"] = "frame rotation about each coordinate axis (c, s with c^2 + s^2 = 1), one grain, olivine only; general Q follows from the group action decided in C11 (thorough)"
    for axis in range(3):
        def fn():
            c, s = real("c"), real("s")
            sym.ctx().assume((c * c + s * s == 1).z3())
            Q = sarr(np.eye(3))
            i, j = [(1, 2), (2, 0), (0, 1)][axis]
            Q[i, i] = c
            Q[j, j] = c
            Q[i, j] = -s
            Q[j, i] = s
            base = _setup("olivine only", False, 1, 1)
            rot = _setup("olivine only", False, 1, 1, frame=Q)
            return c, s, Q, base, rot

        with np_installed(minerals, tensors):
            paths, _ = sym.explore(fn, catch=(Exception,))
        p = only_path(sess, paths)
        if p.exc is not None:
            raise sym.HarnessError(f"corotation: {p.exc}")
        c, s, Q, base, rot = p.value
        rules = poly.Rules().circle(c, s)
        for q in base[5]:
            rules.unit_quat(q)
        want = _to_voigt(_mode_rotate(_to_tensor(base[0][0]), np.asarray(Q, dtype=object)))
        sess.prove_nf(f"co-rotation about axis {axis}: average(A Q^T) = rotate(average(A), Q)", p.pc, rules, rot[0][0], want)
    sess.satisfiable("corotation: reach", p.pc)


def t_rejects(sess):
    """Minerals with unequal grain counts (symbolic integers) or snapshot counts raise ValueError."""
    mods = pydrex_modules()
    minerals, core = mods["minerals"], mods["core"]
    P = core.MineralPhase

    def mk(n_steps_o, n_steps_f):
        m = minerals.Mineral(phase=P.olivine, n_grains=1, fractions_init=sarr(np.array([1.0])), orientations_init=sarr(np.eye(3).reshape(1, 3, 3)))
        m.orientations = [m.orientations[0]] * n_steps_o
        m.fractions = [m.fractions[0]] * n_steps_f
        return m

    def fn():
        a, b = mk(1, 1), mk(1, 1)
        a.n_grains, b.n_grains = symint("na"), symint("nb")
        minerals.voigt_averages([a, b], [P.olivine], [1.0])
        return "returned"

    with np_installed(minerals, mods["tensors"]):
        paths, _ = sym.explore(fn, catch=(Exception,))
    na, nb = z3.Int("na"), z3.Int("nb")
    for k, p in enumerate(paths):
        if isinstance(p.exc, ValueError):
            sess.prove(f"rejects path {k}: ValueError only when the grain counts differ", p.pc, na != nb)
        else:
            sess.prove(f"rejects path {k}: the average proceeds only when the grain counts are equal", p.pc, na == nb)
    cover = z3.Or(*[z3.And(*p.branch_conds) for p in paths if isinstance(p.exc, ValueError)]) if any(isinstance(p.exc, ValueError) for p in paths) else z3.BoolVal(False)
    sess.prove("rejects: every pair of unequal grain counts raises ValueError", [na != nb], cover)
    sess.satisfiable("rejects: reach", [na != nb, cover])
    # three minerals: a mismatch confined to the last one must be refused as well
    def fn3():
        a, b, c3 = mk(1, 1), mk(1, 1), mk(1, 1)
        a.n_grains, b.n_grains, c3.n_grains = symint("na"), symint("nb"), symint("nc")
        minerals.voigt_averages([a, b, c3], [P.olivine], [1.0])
        return "returned"

    with np_installed(minerals, mods["tensors"]):
        paths3, _ = sym.explore(fn3, catch=(Exception,))
    nc = z3.Int("nc")
    alleq = z3.And(na == nb, nb == nc)
    for k, p in enumerate(paths3):
        if isinstance(p.exc, ValueError):
            sess.prove(f"rejects (3 minerals) path {k}: ValueError only when some grain count differs", p.pc, z3.Not(alleq))
        else:
            sess.prove(f"rejects (3 minerals) path {k}: the average proceeds only when all grain counts are equal", p.pc, alleq)
    for (co, cf) in ((2, 1), (1, 2), (2, 2)):
        def fn4():
            try:
                minerals.voigt_averages([mk(1, 1), mk(1, 1), mk(co, cf)], [P.olivine], [1.0])
                return None
            except ValueError as e:
                return e

        with np_installed(minerals, mods["tensors"]):
            paths4, _ = sym.explore(fn4, catch=(Exception,))
        sess.prove(f"rejects (3 minerals): third mineral with ({co},{cf}) snapshots against (1,1): ValueError", [], z3.BoolVal(paths4[0].value is not None))
    # snapshot counts (list lengths are concrete: enumerate 1..3 x 1..3 for both lists)
    for (ao, af, bo, bf) in it.product((1, 2), repeat=4):
        def fn2():
            try:
                minerals.voigt_averages([mk(ao, af), mk(bo, bf)], [P.olivine], [1.0])
                return None
            except ValueError as e:
                return e

        with np_installed(minerals, mods["tensors"]):
            paths, _ = sym.explore(fn2, catch=(Exception,))
        raised = paths[0].value is not None
        consistent = ao == af == bo == bf
        sess.prove(f"rejects: snapshot counts (orientations, fractions) = ({ao},{af}) and ({bo},{bf}): ValueError iff inconsistent", [], z3.BoolVal(raised == (not consistent)))


def default_cex(name):
    return {"replay": "vf.props.C10:replay_generic", "case": {}, "cls": {"kind": "Voigt average deviates from the volume-weighted sum of rotated tensors / mismatched minerals accepted"}}


def replay_generic(case):
    """Public API on random textures for every assemblage, built-in and custom stiffness tensors, 1-3 minerals:
    einsum oracle, symmetry, co-rotation, aligned grain, order independence, refusal of mismatched minerals."""
    import numpy as np
    import pydrex
    from pydrex import core, minerals
    from scipy.spatial.transform import Rotation

    P, Fb = core.MineralPhase, core.MineralFabric
    rng = np.random.default_rng(12)
    problems = []

    def tens(M):
        T = np.empty((3, 3, 3, 3))
        for a, b, c, d in it.product(range(3), repeat=4):
            T[a, b, c, d] = M[_voigt_index(a, b), _voigt_index(c, d)]
        return T

    def mk(phase, ng, ns, seed):
        r = np.random.default_rng(seed)
        A = [Rotation.random(ng, random_state=int(r.integers(1 << 30))).as_matrix() for _ in range(ns)]
        f = [r.dirichlet(np.ones(ng) * 0.5) for _ in range(ns)]
        m = pydrex.Mineral(phase=phase, fabric=Fb.olivine_A if phase == P.olivine else Fb.enstatite_AB, n_grains=ng, fractions_init=f[0], orientations_init=A[0])
        m.fractions, m.orientations = list(f), list(A)
        return m

    def oracle(ms, asm, fr, st, k):
        want = np.zeros((6, 6))
        for m in ms:
            T = tens(getattr(st, m.phase.name))
            for g in range(m.n_grains):
                Rm = m.orientations[k][g].T
                rot = np.einsum("ia,jb,kc,ld,abcd->ijkl", Rm, Rm, Rm, Rm, T)
                want += np.array([[rot[a, b, c, d] for (c, d) in PAIRS] for (a, b) in PAIRS]) * m.fractions[k][g] * fr[asm.index(m.phase)]
        return want

    custom = minerals.StiffnessTensors()
    pydrex.voigt_averages([mk(P.olivine, 3, 1, 1)], [P.olivine], [1.0], custom)  # used once with the built-in values, then edited in place
    for nm in ("olivine", "enstatite"):
        X = rng.normal(size=(6, 6))
        setattr(custom, nm, getattr(custom, nm) + 5 * (X + X.T))
    for st, label in ((minerals.StiffnessTensors(), "built-in"), (custom, "custom")):
        for asm, fr, phases in (([P.olivine], [1.0], [P.olivine]), ([P.enstatite], [1.0], [P.enstatite]), ([P.olivine, P.enstatite], [0.7, 0.3], [P.olivine, P.enstatite]),
                                ([P.enstatite, P.olivine], [0.2, 0.8], [P.olivine, P.enstatite]), ([P.enstatite, P.olivine], [0.2, 0.8], [P.enstatite, P.olivine])):
            ms = [mk(ph, 7, 2, 3 + i) for i, ph in enumerate(phases)]
            out = pydrex.voigt_averages(ms, asm, fr, st) if label == "custom" else pydrex.voigt_averages(ms, asm, fr)
            for k in range(2):
                want = oracle(ms, asm, fr, st, k)
                if np.abs(out[k] - want).max() > 1e-8:
                    problems.append(f"{label} tensors, assemblage {[a.name for a in asm]}, minerals {[p_.name for p_ in phases]}: differs from the weighted sum by {np.abs(out[k] - want).max():.2e}")
                if np.abs(out[k] - out[k].T).max() > 1e-9:
                    problems.append(f"{label}: result not symmetric")
            rev = pydrex.voigt_averages(ms[::-1], asm, fr, st)
            if np.abs(rev - out).max() > 1e-9:
                problems.append(f"{label}: result depends on the order of the minerals")
    # co-rotation and aligned grain
    m = mk(P.olivine, 5, 1, 9)
    Q = Rotation.from_euler("zxz", [0.4, 1.2, 2.1]).as_matrix()
    base = pydrex.voigt_averages([m], [P.olivine], [1.0])[0]
    m2 = mk(P.olivine, 5, 1, 9)
    m2.orientations = [m.orientations[0] @ Q.T]
    rot = pydrex.voigt_averages([m2], [P.olivine], [1.0])[0]
    Tb = np.einsum("ia,jb,kc,ld,abcd->ijkl", Q, Q, Q, Q, tens(base))
    wantrot = np.array([[Tb[a, b, c, d] for (c, d) in PAIRS] for (a, b) in PAIRS])
    if np.abs(rot - wantrot).max() > 1e-8:
        problems.append("average does not co-rotate with the reference frame")
    one = pydrex.Mineral(phase=P.enstatite, fabric=Fb.enstatite_AB, n_grains=1, fractions_init=np.array([1.0]), orientations_init=np.eye(3).reshape(1, 3, 3))
    if np.abs(pydrex.voigt_averages([one], [P.enstatite], [1.0])[0] - minerals.StiffnessTensors().enstatite).max() > 1e-10:
        problems.append("one aligned grain does not return the single-crystal tensor")
    # refusal of mismatched minerals, also when only the last of three differs
    for bad in ("grains", "snapshots", "fractions"):
        ms = [mk(P.olivine, 4, 2, 1), mk(P.enstatite, 4, 2, 2), mk(P.olivine, 5 if bad == "grains" else 4, 3 if bad == "snapshots" else 2, 3)]
        if bad == "fractions":
            ms[2].fractions = ms[2].fractions[:1]
        for order in (ms, ms[::-1], [ms[0], ms[2], ms[1]]):
            try:
                pydrex.voigt_averages(order, [P.olivine, P.enstatite], [0.5, 0.5])
                problems.append(f"minerals with mismatched {bad} accepted ({[order.index(x) for x in ms]})")
            except ValueError:
                pass
            except Exception as e:  # noqa: BLE001
                problems.append(f"minerals with mismatched {bad}: {type(e).__name__} instead of ValueError")
    return {"reproduced": bool(problems), "detail": sorted(set(problems))[:6] or "Voigt averages equal the oracle"}
