"""C16 -- SCSV save/read round trip is lossless; invalid schemas and data are refused.

Engine E2: CrossHair (symbolic execution of Python over z3 strings/ints/floats) runs contract functions
(vf/ch/c16.py) that call the real writer `save_scsv` / `write_scsv_header` / `_validate_scsv_schema` and
the real reader `_parse_scsv_cell` with I/O replaced by stand-ins. "Confirmed over all paths" is the only
passing verdict. In addition z3's string theory searches, for every YAML implicit resolver installed in
PyYAML, a short plain scalar that the resolver would not load as a string; each witness is replayed
through the real save_scsv / read_scsv on a temporary file (the header is the part CrossHair cannot reach).
"""

from __future__ import annotations

import os
import re
import subprocess
import sys
import time

import z3

from .. import solve, sym
from .common import sample

TIMEOUT_MS = {"quick": 60000, "thorough": 300000}

CONTRACTS = ["string_cell_roundtrip", "string_cell_special_fill", "int_cell_roundtrip", "bool_cell_roundtrip", "float_cell_roundtrip", "complex_cell_roundtrip", "terse_schema_is_valid",
             "schema_validation", "invalid_schema_refused", "unequal_columns_refused", "unparsable_cell_refused", "foreign_typed_cell_refused", "single_column_rows_through_reader", "rows_through_reader_comma", "rows_through_reader_tab", "rows_through_reader_semicolon", "rows_through_reader_space", "header_scalars_are_single_quoted"]
HEAVY = {"schema_validation", "invalid_schema_refused", "unparsable_cell_refused", "terse_schema_is_valid", "foreign_typed_cell_refused"}


def tasks(tier):
    per = 150 if tier == "quick" else 600
    t = [("t_contract", {"fn": f, "per_condition_s": per}) for f in CONTRACTS]
    t += [("t_yaml_scalars", {})]
    return t


def t_contract(sess, fn, per_condition_s):
    from ..ch import c16

    sess.encode(getattr(c16, fn))
    import pydrex.io as pio

    sess.encode(pio.save_scsv, pio._parse_scsv_cell, pio._validate_scsv_schema, pio.write_scsv_header)
    sess.bounds[f"contract:{fn}"] = getattr(c16, fn).__doc__.strip().replace("\n", " ")[:300]
    sess.assume_env("csv returns each field as written (cells without delimiter / quote / line break); float(repr(x)) == x; the reader sees the schema given to the writer")
    sess.outside_claim("YAML scanning of arbitrary characters in the header (quotes, '#', ': ', flow indicators), 1e4 rows, real file I/O beyond the replays")
    here = os.path.dirname(os.path.dirname(os.path.dirname(os.path.abspath(__file__))))
    mpl = os.path.join(here, ".cache", "mpl")
    os.makedirs(mpl, exist_ok=True)  # matplotlib (imported by pydrex) must not create directories under CrossHair's audit wall
    pp = os.pathsep.join([x for x in (os.environ.get("VERIF_PYDREX_SRC"), here) if x])
    env = dict(os.environ, PYTHONPATH=pp, NUMBA_DISABLE_JIT="1", MPLCONFIGDIR=mpl)
    # warm-up outside CrossHair's audit wall: matplotlib (imported by pydrex) builds its config dir / font cache once
    subprocess.run([sys.executable, "-c", "import pydrex.io"], env=env, cwd=here, capture_output=True, timeout=600)
    import inspect

    line = inspect.getsourcelines(getattr(c16, fn))[1] + 1  # a line inside the def selects that function
    cmd = [sys.executable, "-m", "crosshair", "check", "--report_all", "--per_condition_timeout", str(per_condition_s), f"vf/ch/c16.py:{line}"]
    t0 = time.time()

    def run_crosshair(budget):
        c = list(cmd)
        c[c.index("--per_condition_timeout") + 1] = str(budget)
        try:
            p = subprocess.run(c, capture_output=True, text=True, env=env, cwd=here, timeout=budget * 3 + 120)
            return p.stdout + p.stderr
        except subprocess.TimeoutExpired as e:
            return (e.stdout or "") + "\ninfo: Not confirmed. (process timeout)"

    out = run_crosshair(per_condition_s)
    if fn not in HEAVY and "Confirmed over all paths" not in out and not re.search(r"error: .*? when calling ", out):
        # CrossHair's budget is wall-clock: on a loaded machine a contract that normally takes 10-60 s can run out of
        # time. One retry with three times the budget; still only "Confirmed over all paths" passes.
        sess.notes.append(f"crosshair[{fn}]: not confirmed within {per_condition_s} s, retried with {3 * per_condition_s} s")
        out = run_crosshair(3 * per_condition_s)
    dt = time.time() - t0
    name = f"crosshair[{fn}]: contract holds for all inputs within the stated bounds"
    verdict, call = "unknown", None
    for line in out.splitlines():
        if "Confirmed over all paths" in line:
            verdict = "unsat"
        m = re.search(r"error: (.*?) when calling (\w+\(.*\))$", line)
        if m:
            verdict, call = "sat", (m.group(1), re.sub(r"\s\(which (?:returns|raises) .*\)$", "", m.group(2)))
            break
        if "Not confirmed" in line or "Unable to meet precondition" in line:
            verdict = "unknown"
    tags = {"engine": "crosshair", "optional": fn in HEAVY and verdict == "unknown"}
    q = solve.QueryResult(name, verdict, None, dt, tags)
    sess.results.append(q)
    sess.solver_time += dt
    if verdict == "unknown":
        sess.inconclusive.append(name)
    if verdict == "sat":
        sess.cex.append({"name": name, "replay": "vf.props.C16:replay_contract", "case": {"fn": fn, "call": call[1], "why": call[0]},
                         "cls": {"kind": "SCSV contract violated", "contract": fn}})
    sess.reach.append(solve.QueryResult(f"crosshair[{fn}]: reach", "sat" if verdict in ("unsat", "sat") or "Not confirmed" in out else "unknown", None, 0.0))
    sample(sess, obligation=fn, verdict=verdict, crosshair_output=out.strip().splitlines()[-1][:300] if out.strip() else "")


def replay_contract(case):
    """Concrete re-execution of the contract (real pydrex code, I/O stand-ins) and, for cell contracts, a
    file-level round trip through the real save_scsv / read_scsv."""
    import math
    import tempfile

    import pydrex.io as pio
    from pydrex import exceptions as err

    from vf.ch import c16

    ns = {k: getattr(c16, k) for k in dir(c16)}
    ns.update(nan=float("nan"), inf=float("inf"), math=math)
    detail = {}
    code = compile(case["call"], "<crosshair counterexample>", "eval")  # a call that does not parse is a harness error, not a reproduction
    try:
        res = eval(code, ns)  # noqa: S307 - literal call printed by CrossHair
        detail["contract"] = f"returned {res!r}"
        bad = res is False
    except err.SCSVError as e:
        detail["contract"] = f"SCSVError: {e}"
        bad = False
    except Exception as e:  # noqa: BLE001
        detail["contract"] = f"{type(e).__name__}: {e}"
        bad = True
    m = re.match(r"(string|bool)_cell_roundtrip\((.*)\)$", case["call"], re.S)
    if m:
        kind = {"string": "string", "int": "integer", "float": "float", "bool": "boolean"}[m.group(1)]
        args = eval("(" + m.group(2) + ",)", {"nan": float("nan"), "inf": float("inf")})  # noqa: S307
        cell, missing = args[0], args[1]
        fill = args[2] if len(args) > 2 else False
        d = tempfile.mkdtemp(prefix="c16_")
        f = os.path.join(d, "t.scsv")
        try:
            pio.save_scsv(f, {"delimiter": ",", "missing": missing, "fields": [{"name": "a", "type": kind, "fill": fill}]}, [[cell]])
            back = pio.read_scsv(f).a[0]
            same = (back != back) if (isinstance(cell, float) and cell != cell) else (back == cell)
            detail["file"] = f"read back {back!r} for {cell!r}"
            bad = bad or not same
        except err.SCSVError as e:
            detail["file"] = f"SCSVError: {e}"
        except Exception as e:  # noqa: BLE001
            detail["file"] = f"{type(e).__name__}: {e}"
            bad = True
    return {"reproduced": bool(bad), "detail": detail}


# ---------------------------------------------------------------------------------------
# YAML implicit resolvers -> z3 regular expressions


def _re_to_z3(pattern, flags=0):
    try:
        import re._parser as sp  # Python >= 3.11
        import re._constants as sc
    except ImportError:  # pragma: no cover
        import sre_constants as sc
        import sre_parse as sp

    tree = sp.parse(pattern, flags)

    def ch(c):
        return z3.Re(z3.StringVal(chr(c)))

    def rng(a, b):
        return z3.Range(z3.StringVal(chr(a)), z3.StringVal(chr(b)))

    def seq(items):
        parts = [node(op, av) for op, av in items]
        parts = [p for p in parts if p is not None]
        if not parts:
            return z3.Re(z3.StringVal(""))
        out = parts[0]
        for p in parts[1:]:
            out = z3.Concat(out, p)
        return out

    def cat(code):
        if code == sc.CATEGORY_DIGIT:
            return rng(48, 57)
        if code == sc.CATEGORY_SPACE:
            return z3.Union(ch(32), ch(9))
        if code == sc.CATEGORY_WORD:
            return z3.Union(rng(48, 57), rng(65, 90), rng(97, 122), ch(95))
        raise sym.Unsupported(f"regex category {code}")

    def node(op, av):
        if op == sc.LITERAL:
            return ch(av)
        if op == sc.ANY:
            return rng(32, 126)
        if op == sc.IN:
            alts = []
            neg = False
            for o, a in av:
                if o == sc.NEGATE:
                    neg = True
                elif o == sc.LITERAL:
                    alts.append(ch(a))
                elif o == sc.RANGE:
                    alts.append(rng(a[0], a[1]))
                elif o == sc.CATEGORY:
                    alts.append(cat(a))
                else:
                    raise sym.Unsupported(f"regex set item {o}")
            u = alts[0]
            for a in alts[1:]:
                u = z3.Union(u, a)
            if neg:
                u = z3.Intersect(rng(32, 126), z3.Complement(u))
            return u
        if op == sc.BRANCH:
            alts = [seq(b) for b in av[1]]
            u = alts[0]
            for a in alts[1:]:
                u = z3.Union(u, a)
            return u
        if op == sc.SUBPATTERN:
            return seq(av[3])
        if op in (sc.MAX_REPEAT, sc.MIN_REPEAT):
            lo, hi, sub = av
            body = seq(sub)
            if hi == sc.MAXREPEAT:
                return z3.Concat(*([body] * lo + [z3.Star(body)])) if lo else z3.Star(body)
            return z3.Loop(body, lo, hi)
        if op == sc.AT:
            return None
        raise sym.Unsupported(f"regex node {op}")

    return seq(tree)


def t_yaml_scalars(sess):
    """For every implicit resolver of the installed PyYAML: a short plain scalar it would load as a non-string.
    These are hypotheses about dangerous fill values / cells; the replay through the real files decides."""
    import yaml

    import pydrex.io as pio

    sess.encode(pio.write_scsv_header, pio.read_scsv)
    sess.bounds["yaml_scalars"] = "strings of length <= 6 over printable ASCII without space, quote, '#', ':', ',' and flow indicators; one witness per resolver tag"
    seen = {}
    for first, lst in yaml.resolver.Resolver.yaml_implicit_resolvers.items():
        for tag, rx in lst:
            seen.setdefault(tag, rx)
    s = z3.String("s")
    safe = z3.Star(z3.Union(z3.Range("a", "z"), z3.Range("A", "Z"), z3.Range("0", "9"), *[z3.Re(z3.StringVal(c)) for c in "._+-~=<"]))
    witnesses = {}
    for tag, rx in sorted(seen.items()):
        short = tag.rsplit(":", 1)[-1]
        try:
            lang = _re_to_z3(rx.pattern, rx.flags)
        except sym.Unsupported as e:
            sess.notes.append(f"resolver {short}: regex not translated ({e})")
            continue
        cons = [z3.InRe(s, lang), z3.InRe(s, safe), z3.Length(s) <= 6]
        name = f"yaml[{short}]: no short plain scalar is resolved as '{short}' instead of a string"
        q = sess.prove(name, cons[:-1] + [cons[-1]], z3.BoolVal(False), tags={"optional": True, "hypothesis": True, "exact_only": True})
        if q.verdict == "sat":
            w = q.model.eval(s, model_completion=True).as_string()
            witnesses[short] = w
            sess.cex.append({"name": name, "replay": "vf.props.C16:replay_fill", "case": {"fill": w, "tag": short}, "hypothesis": True,
                             "cls": {"kind": "string fill / cell that looks like a YAML scalar is not read back verbatim", "yaml_tag": short}})
    sess.satisfiable("yaml scalars: reach", [z3.InRe(s, safe)])
    sample(sess, obligation="YAML implicit resolvers", witnesses=witnesses)


def replay_fill(case):
    """Real files: a string column whose fill value is the witness; a cell equal to the fill must come back."""
    import tempfile

    import pydrex.io as pio
    from pydrex import exceptions as err

    fill = case["fill"]
    d = tempfile.mkdtemp(prefix="c16_")
    f = os.path.join(d, "t.scsv")
    # explicitly typed string field, and a field relying on the default type (string)
    schema = {"delimiter": ",", "missing": "-", "fields": [{"name": "a", "type": "string", "fill": fill}, {"name": "b", "type": "integer", "fill": "7"},
                                                            {"name": "c", "fill": fill}]}
    try:
        pio.save_scsv(f, schema, [[fill, "x"], [1, 2], ["y", fill]])
        back = pio.read_scsv(f)
        ok = back.a == (fill, "x") and back.b == (1, 2) and back.c == ("y", fill) and back._fields == ("a", "b", "c")
        return {"reproduced": not ok, "detail": {"fill": fill, "read_back": [repr(v) for v in back.a + back.c]}}
    except err.SCSVError as e:
        return {"reproduced": True, "detail": f"valid schema with fill {fill!r} refused: {e}"}
    except Exception as e:  # noqa: BLE001
        return {"reproduced": True, "detail": f"{type(e).__name__}: {e}"}
