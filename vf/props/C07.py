"""C07 -- null forcing leaves the texture unchanged; unsupported regimes / ordinals are rejected;
a failed update leaves the stored history untouched."""

from __future__ import annotations

import numpy as np
import z3

from .. import quat, solve, stubs, sym
from ..sarr import SArr, patched, sarr
from ..sym import R, SymInt, real, symint
from . import kernel
from . import mineral_h as mh
from .common import all_eq, eq, main_path, np_installed, pydrex_modules, sample

TIMEOUT_MS = {"quick": 60000, "thorough": 300000}


def tasks(tier):
    n = 2 if tier == "quick" else 4
    t = [
        ("t_null_regimes", {"n_grains": n + 1}),
        ("t_dispatch", {"n_grains": 2}),
        ("t_crss", {}),
        ("t_solver_validates_pair", {"regime": "matrix_dislocation"}), ("t_solver_validates_pair", {"regime": "frictional_yielding"}),
        ("t_failed_update", {"n_grains": n}),
        ("t_zero_mobility", {"regime": "matrix_dislocation", "n_grains": n}), ("t_zero_mobility", {"regime": "frictional_yielding", "n_grains": n}),
    ]
    for ph, fb in kernel.FABRICS if tier == "thorough" else [kernel.FABRICS[0], kernel.FABRICS[2], kernel.FABRICS[5]]:
        for regime in ("matrix_dislocation", "frictional_yielding"):
            t.append(("t_zero_L", {"phase": ph, "fabric": fb, "regime": regime, "n_grains": n}))
    # the remaining accepted regimes (the rate does not depend on the fabric there)
    for regime in ("matrix_diffusion", "min_viscosity", "max_viscosity"):
        t.append(("t_zero_L", {"phase": "olivine", "fabric": "olivine_A", "regime": regime, "n_grains": n}))
    return t


def _deriv_args(n_grains, regime, **over):
    P, F, Rg = kernel.enums()
    A, f = mh.sym_snapshot("g", n_grains)
    L = quat.symmat("L")
    D = (L + L.transpose()) / 2
    W = quat.symmat("W")
    p, n, lam, M, phi = (real(x) for x in ("p", "n", "lam", "M", "phi"))
    args = dict(regime=regime, phase=P.olivine, fabric=F.olivine_A, n_grains=n_grains, orientations=A, fractions=f,
                strain_rate=D, velocity_gradient=L, deformation_gradient_spin=W, stress_exponent=p,
                deformation_exponent=n, nucleation_efficiency=lam, gbm_mobility=M, volume_fraction=phi)
    args.update(over)
    return args


def t_null_regimes(sess, n_grains):
    core = pydrex_modules()["core"]
    P, F, Rg = kernel.enums()
    sess.encode(core.derivatives)
    sess.bounds["null_regimes"] = f"n_grains = {n_grains}; arbitrary orientations, fractions, L, spin, parameters"
    for regime in (Rg.min_viscosity, Rg.max_viscosity):
        def fn():
            return core.derivatives(**_deriv_args(n_grains, regime))

        with np_installed(core):
            paths, info = sym.explore(fn)
        p0 = main_path(sess, paths, f"regime {regime.name}")
        if p0 is None:
            continue
        paths = [p0]
        dA, df = paths[0].value
        name = f"regime {regime.name}: orientation rates are identically zero"
        sess.satisfiable(f"{regime.name}: reach", paths[0].pc)
        q = sess.prove(name, paths[0].pc, all_eq(dA, sarr(np.zeros((n_grains, 3, 3)))))
        if not q.holds:
            sess.cex.append({
                "name": name, "replay": "vf.props.C07:replay_null_regime", "case": {"regime": int(regime), "n_grains": n_grains},
                "cls": {"kind": "null regime returns non-zero orientation rate", "regime": regime.name},
            })
        name = f"regime {regime.name}: volume rates are identically zero"
        q = sess.prove(name, paths[0].pc, all_eq(df, sarr(np.zeros(n_grains))))
        if not q.holds:
            sess.cex.append({
                "name": name, "replay": "vf.props.C07:replay_null_regime", "case": {"regime": int(regime), "n_grains": n_grains},
                "cls": {"kind": "null regime returns non-zero volume rate", "regime": regime.name},
            })
        sample(sess, obligation="null regime", regime=regime.name, dA000=str(np.asarray(dA, dtype=object)[0, 0, 0]))


def t_zero_mobility(sess, regime, n_grains):
    """Zero boundary mobility: volume rates vanish for every flow (real derivatives, kernel stubbed) -- the
    aggregate obligations of C03 include 'M* = 0 => f' = 0' and linearity in M*."""
    from . import C03

    C03.t_aggregate(sess, regime, n_grains)


def replay_null_regime(case):
    import numpy as np
    from pydrex import core
    from scipy.spatial.transform import Rotation

    n = case["n_grains"]
    A = Rotation.random(n, random_state=1).as_matrix()
    L = np.array([[0.0, 0.0, 2.0], [0.0, 0.0, 0.0], [0.0, 0.0, 0.0]])
    dA, df = core.derivatives(case["regime"], core.MineralPhase.olivine, core.MineralFabric.olivine_A, n, A,
                              np.full(n, 1 / n), (L + L.T) / 2, L, np.zeros((3, 3)), 1.5, 3.5, 5.0, 125.0, 1.0)
    bad = bool(np.any(dA != 0) or np.any(df != 0))
    return {"reproduced": bad, "detail": {"dA[0]": np.asarray(dA)[0].tolist(), "df": np.asarray(df).tolist()}}


def t_dispatch(sess, n_grains):
    """Symbolic regime ordinal: which ordinals return numbers, which raise ValueError."""
    core = pydrex_modules()["core"]
    sess.encode(core.derivatives)
    sess.bounds["dispatch"] = "regime an arbitrary integer (symbolic), kernel stubbed"
    calls = []

    def kstub(*a):
        calls.append(a)
        return quat.symmat(f"k{len(calls)}_"), real(f"kE{len(calls)}")

    def fn():
        r = symint("regime")
        return core.derivatives(**_deriv_args(n_grains, r))

    with np_installed(core), patched((core, "_get_rotation_and_strain", kstub)):
        paths, info = sym.explore(fn, catch=(Exception,))
    r = z3.Int("regime")
    accepted = z3.Or(*[r == k for k in (0, 1, 4, 6, 7)])
    n_ret = n_exc = 0
    for k, p in enumerate(paths):
        if p.exc is None:
            n_ret += 1
            sess.prove(f"dispatch path {k}: returning numbers implies regime in {{0,1,4,6,7}}", p.pc, accepted)
        elif isinstance(p.exc, ValueError):
            n_exc += 1
            sess.prove(f"dispatch path {k}: ValueError implies an unsupported / invalid ordinal", p.pc, z3.Not(accepted))
        else:
            sess.prove(f"dispatch path {k}: unexpected exception {type(p.exc).__name__}: {p.exc}", p.pc, z3.BoolVal(False))
    # every unsupported / out-of-range ordinal is covered by some raising path, every accepted one by a returning path
    cover_exc = z3.Or(*[z3.And(*p.branch_conds) for p in paths if isinstance(p.exc, ValueError)])
    cover_ret = z3.Or(*[z3.And(*p.branch_conds) for p in paths if p.exc is None])
    sess.prove("dispatch: every ordinal outside {0,1,4,6,7} (incl. 2,3,5 and out-of-range) raises ValueError", [z3.Not(accepted)], cover_exc)
    sess.prove("dispatch: every accepted ordinal returns", [accepted], cover_ret)
    sess.satisfiable("dispatch: reach raise", [z3.Not(accepted), cover_exc])
    sess.paths["dispatch"] = {"paths": len(paths), "returning": n_ret, "raising": n_exc}
    sample(sess, obligation="regime dispatch", paths=[repr(p) for p in paths][:10])


def t_crss(sess):
    core = pydrex_modules()["core"]
    sess.encode(core.get_crss)

    def fn():
        return core.get_crss(symint("phase"), symint("fabric"))

    with np_installed(core):
        paths, info = sym.explore(fn, catch=(Exception,))
    ph, fb = z3.Int("phase"), z3.Int("fabric")
    supported = z3.Or(*[z3.And(ph == 0, fb == k) for k in range(5)], z3.And(ph == 1, fb == 5))
    for k, p in enumerate(paths):
        if p.exc is None:
            sess.prove(f"crss path {k}: a CRSS row is returned only for a supported (phase, fabric) pair", p.pc, supported)
        elif isinstance(p.exc, ValueError):
            sess.prove(f"crss path {k}: ValueError only for unsupported pairs", p.pc, z3.Not(supported))
        else:
            sess.prove(f"crss path {k}: unexpected exception {type(p.exc).__name__}", p.pc, z3.BoolVal(False))
    cover_exc = z3.Or(*[z3.And(*p.branch_conds) for p in paths if isinstance(p.exc, ValueError)])
    sess.prove("crss: every unsupported or mismatched (phase, fabric) pair raises ValueError", [z3.Not(supported)], cover_exc)
    sess.satisfiable("crss: reach", [z3.Not(supported), cover_exc])
    sess.paths["crss"] = {"paths": len(paths)}


def t_solver_validates_pair(sess, regime):
    """The CPO solver itself (real derivatives, real grain kernel, one grain) with SYMBOLIC phase and fabric ordinals
    assumed to be an unsupported or mismatched pair, arbitrary orientation, velocity gradient and parameters: every
    path must end in ValueError -- no input (a vanishing strain rate, a grain that resolves no shear) may return
    numbers before the pair has been looked at."""
    core = pydrex_modules()["core"]
    P, F, Rg = kernel.enums()
    sess.encode(core.derivatives, core._get_rotation_and_strain, core.get_crss)
    sess.bounds["solver validates pair"] = "one grain; phase, fabric symbolic integers outside the six supported pairs; arbitrary A, L (D its symmetric part), parameters"
    ph, fb = z3.Int("phase"), z3.Int("fabric")
    supported = z3.Or(*[z3.And(ph == 0, fb == k) for k in range(5)], z3.And(ph == 1, fb == 5))

    def fn():
        sym.ctx().assume(z3.Not(supported))
        return core.derivatives(**_deriv_args(1, getattr(Rg, regime), phase=symint("phase"), fabric=symint("fabric")))

    with np_installed(core):
        paths, info = sym.explore(fn, catch=(Exception,), max_paths=200)
    if info["truncated"]:
        sess.truncated = True
    tag = f"solver[{regime}] with an unsupported (phase, fabric) pair"
    n_exc = 0
    for k, p in enumerate(paths):
        if isinstance(p.exc, ValueError):
            n_exc += 1
            continue
        what = "returns numbers" if p.exc is None else f"raises {type(p.exc).__name__} instead of ValueError"
        sess.prove(f"{tag}: path {k} {what}: must be infeasible", p.pc, z3.BoolVal(False), timeout_ms=10000)
    sess.prove(f"{tag}: some path raises ValueError", [], z3.BoolVal(n_exc > 0))
    sess.satisfiable(f"{tag}: reach", [z3.Not(supported)])
    sess.paths[tag] = {"paths": len(paths), "raising ValueError": n_exc}


def t_zero_L(sess, phase, fabric, regime, n_grains):
    """Real eval_rhs (captured through the LSODA stub) with a zero velocity gradient, real derivatives
    and real kernel: orientation and volume blocks of the rhs are 0 and nothing is undefined."""
    mods = pydrex_modules()
    minerals, core = mods["minerals"], mods["core"]
    P, F, Rg = kernel.enums()
    sess.encode(minerals.Mineral.update_orientations, core.derivatives, core._get_rotation_and_strain)
    sess.bounds["zero_L"] = f"n_grains = {n_grains}, arbitrary symbolic state vector y, L = 0"
    sess.assume_env("scipy.linalg.eigvalsh(D) only through its contract: max|eigenvalue| = specrad(D) >= 0, = 0 iff D = 0")
    log = []
    plan = stubs.LsodaPlan(steps=1, n_grains=n_grains, eval_rhs_each_step=True)
    tag = f"zero L [{fabric}/{regime}]"

    def fn():
        log.clear()
        m, snaps = mh.make_mineral(n_grains, getattr(P, phase), getattr(F, fabric), getattr(Rg, regime))
        mh.assume_valid(snaps)
        params = mh.sym_params(n_grains, phase_assemblage=(getattr(P, phase),), phase_fractions=(1.0,))
        Fm = quat.symmat("F")
        Z = sarr(np.zeros((3, 3)))
        m.update_orientations(params, Fm, lambda t, x: Z, (real("t0"), real("t1"), lambda t: sarr(np.zeros(3))))
        return log[0].rhs_values[0]

    with mh.env(plan, log):
        paths, info = sym.explore(fn, catch=(Exception,))
    sess.paths[tag] = {"paths": len(paths)}
    for k, p in enumerate(paths):
        for ob in p.obligations:
            site = ob.site or ("?", "?", "?")
            name = f"{tag}: {ob.kind} cannot happen at {site[0]}: `{site[1]}`"
            q = sess.prove(name, ob.pc, ob.cond)
            if not q.holds:
                sess.cex.append({
                    "name": name, "replay": "vf.props.C07:replay_zero_L",
                    "case": {"phase": phase, "fabric": fabric, "regime": regime},
                    "cls": {"kind": ob.kind, "site_func": site[0], "site_code": site[1]},
                })
        if p.exc is not None:
            if isinstance(p.exc, sym.PathAbort):
                continue
            name = f"{tag}: update raises {type(p.exc).__name__}: {str(p.exc)[:80]}"
            q = sess.prove(name, p.pc, z3.BoolVal(False))
            if not q.holds and not isinstance(p.exc, sym.Unsupported):
                sess.cex.append({
                    "name": name, "replay": "vf.props.C07:replay_zero_L",
                    "case": {"phase": phase, "fabric": fabric, "regime": regime},
                    "cls": {"kind": "exception", "exc": type(p.exc).__name__},
                })
            continue
        t, y, rhs = p.value
        ng = n_grains
        sess.satisfiable(f"{tag}: reach", p.pc)
        sess.prove(f"{tag}: orientation block of the rhs is 0", p.pc, all_eq(rhs[9 : 9 + 9 * ng], sarr(np.zeros(9 * ng))))
        sess.prove(f"{tag}: volume block of the rhs is 0", p.pc, all_eq(rhs[9 + 9 * ng :], sarr(np.zeros(ng))))
        sess.prove(f"{tag}: deformation-gradient block of the rhs is 0 (= L.F)", p.pc, all_eq(rhs[:9], sarr(np.zeros(9))))


def replay_zero_L(case):
    import numpy as np
    import pydrex
    from pydrex import core

    m = pydrex.Mineral(
        phase=getattr(core.MineralPhase, case["phase"]), fabric=getattr(core.MineralFabric, case["fabric"]),
        regime=getattr(core.DeformationRegime, case["regime"]), n_grains=8, seed=3,
    )
    params = core.DefaultParams().as_dict()
    params["phase_assemblage"] = (m.phase,)
    params["phase_fractions"] = (1.0,)
    params["number_of_grains"] = 8
    before_o, before_f = m.orientations[0].copy(), m.fractions[0].copy()
    try:
        with np.errstate(all="ignore"):
            Fm = m.update_orientations(params, np.eye(3), lambda t, x: np.zeros((3, 3)), (0.0, 1.0, lambda t: np.zeros(3)))
    except Exception as e:  # noqa: BLE001
        return {"reproduced": True, "detail": f"update_orientations with L = 0 raised {type(e).__name__}: {e}"}
    ok = (
        len(m.orientations) == 2 and np.allclose(m.orientations[-1], before_o, atol=1e-12)
        and np.allclose(m.fractions[-1], before_f, atol=1e-12) and np.allclose(Fm, np.eye(3), atol=1e-12)
        and np.all(np.isfinite(m.orientations[-1])) and np.all(np.isfinite(m.fractions[-1]))
    )
    return {"reproduced": not ok, "detail": {"F": np.asarray(Fm).tolist(), "max_dA": float(np.nanmax(np.abs(m.orientations[-1] - before_o)))}}


def t_failed_update(sess, n_grains):
    """A failing solver step (status 'failed'), an exception raised from inside the solver, and an
    unsupported regime reached in the rhs all leave both history lists exactly as they were."""
    mods = pydrex_modules()
    minerals = mods["minerals"]
    P, F, Rg = kernel.enums()
    sess.encode(minerals.Mineral.update_orientations)
    sess.bounds["failed_update"] = f"n_grains = {n_grains}, history of 2 arbitrary snapshots, failure at solver step 1 or 2 (of up to 3)"
    scenarios = [
        ("status failed at step 1", stubs.LsodaPlan(steps=3, fail_at=1, n_grains=n_grains), Rg.matrix_dislocation),
        ("status failed at step 2", stubs.LsodaPlan(steps=3, fail_at=2, n_grains=n_grains), Rg.matrix_dislocation),
        ("exception inside the solver at step 2", stubs.LsodaPlan(steps=3, raise_at=2, n_grains=n_grains), Rg.matrix_dislocation),
        ("unsupported regime reached in the rhs", stubs.LsodaPlan(steps=2, n_grains=n_grains, eval_rhs_each_step=True), Rg.boundary_diffusion),
    ]
    for label, plan, regime in scenarios:
        log, dlog = [], []
        holder = {}

        def fn():
            log.clear()
            dlog.clear()
            m, snaps = mh.make_mineral(n_grains, regime=regime, history=2)
            mh.assume_valid(snaps)
            before = [(id(a), a.view(np.ndarray).copy()) for a in m.orientations], [(id(a), a.view(np.ndarray).copy()) for a in m.fractions]
            holder["m"], holder["before"] = m, before
            params = mh.sym_params(n_grains)
            L = quat.symmat("L")
            m.update_orientations(params, quat.symmat("F"), lambda t, x: L, (real("t0"), real("t1"), lambda t: sarr(np.zeros(3))))
            return "returned"

        with mh.env(plan, log):
            paths, info = sym.explore(fn, catch=(Exception,))
        for k, p in enumerate(paths):
            # re-run concretely the bookkeeping comparison on the final object of that path is not possible
            # (object state is per run), so the comparison is made inside a second exploration below
            pass
        # run again, path by path, returning the comparison data from inside the run
        def fn2():
            try:
                fn()
                raised = None
            except Exception as e:  # noqa: BLE001
                raised = e
            m, (bo, bf) = holder["m"], holder["before"]
            same_len = len(m.orientations) == len(bo) and len(m.fractions) == len(bf)
            same_obj = same_len and all(id(a) == i for a, (i, _) in zip(m.orientations, bo)) and all(id(a) == i for a, (i, _) in zip(m.fractions, bf))
            cells = []
            if same_len:
                for a, (_, old) in list(zip(m.orientations, bo)) + list(zip(m.fractions, bf)):
                    for x, y in zip(a.view(np.ndarray).flat, old.flat):
                        cells.append((x, y))
            return raised, same_len, same_obj, cells

        with mh.env(plan, log):
            paths, info = sym.explore(fn2, catch=())
        sess.paths[f"failed_update[{label}]"] = {"paths": len(paths)}
        for k, p in enumerate(paths):
            raised, same_len, same_obj, cells = p.value
            tag = f"failed update [{label}] path {k}"
            sess.prove(f"{tag}: the update raises", p.pc, z3.BoolVal(raised is not None))
            sess.prove(f"{tag}: no snapshot appended or removed, stored arrays are the same objects", p.pc, z3.BoolVal(bool(same_len and same_obj)))
            cl = [eq(x, y) for x, y in cells]
            sess.prove(f"{tag}: every cell of every stored snapshot unchanged", p.pc, z3.And(*cl) if cl else z3.BoolVal(False))
        sess.satisfiable(f"failed update [{label}]: reach", paths[0].pc if paths else [z3.BoolVal(False)])
    sample(sess, obligation="failed update leaves history untouched", scenarios=[s[0] for s in scenarios])


def default_cex(name):
    """Generic public-API replay for verdicts that carry no more specific counterexample."""
    if "dispatch" in name or "crss" in name or "failed update" in name or "unsupported (phase, fabric) pair" in name:
        return {"replay": "vf.props.replays:c07_dispatch", "case": {}, "cls": {"kind": "regime / ordinal dispatch or failed-update handling deviates"}}
    return {"replay": "vf.props.replays:c07_null", "case": {}, "cls": {"kind": "null forcing changes the texture"}}
