"""C19 -- parameter records and configuration files mean what they declare.

The preset table and the default record are finite and are enumerated completely (every preset x every
attribute it declares). The configuration parsers are executed symbolically: every optional key has a
symbolic presence flag, phase fractions are symbolic reals, phase names / fabric letters range over the
valid values plus an invalid one; file readers are replaced by stand-ins.
"""

from __future__ import annotations

import dataclasses
import itertools as it
import pathlib

import numpy as np
import z3

from .. import solve, sym
from ..sarr import NpProxy, SArr, patched, sarr
from ..sym import R, SymBool, real
from .common import all_eq, eq, np_installed, pydrex_modules, sample

TIMEOUT_MS = {"quick": 60000, "thorough": 300000}


def tasks(tier):
    t = [("t_default_record", {}), ("t_presets", {})]
    asm = [["olivine"], ["olivine", "enstatite"], ["enstatite", "olivine"], ["olivine", "pyroxene"], [0, 1], [0, 7]]
    for a, letter in it.product(asm, ["A", "C", "Z"] if tier == "quick" else ["A", "B", "C", "D", "E", "Z"]):
        for nf in (1, 2):
            t.append(("t_config_params", {"assemblage": a, "n_fractions": nf, "fabric": letter}))
    # fabric strings taken from the enumeration itself -- every member's suffix, full name and lower-case form, the other
    # phase's fabrics ("AB"), the empty string -- : only "A".."E" name an olivine fabric, whatever look-up the parser uses
    for letter in _fabric_strings():
        t.append(("t_config_params", {"assemblage": ["olivine"], "n_fractions": 1, "fabric": letter}))
    # phase names taken from the enumeration class's own namespace: every attribute name of MineralPhase that is not a
    # member ("mro", "real", "__doc__", "_member_map_", ...) is an unknown phase, whatever look-up the parser uses
    names = _phase_strings()
    for nm in (names if tier == "thorough" else names[:6] + names[6::5]):
        t.append(("t_config_params", {"assemblage": [nm], "n_fractions": 1, "fabric": "A"}))
    t += [("t_config_output", {"assemblage": a}) for a in (["olivine"], ["olivine", "enstatite"])]
    t += [("t_config_input", {}), ("t_config_modes", {}), ("t_config_special_values", {})]
    return t


def _phase_strings():
    from pydrex import core

    P = core.MineralPhase
    first = ["mro", "real", "__doc__", "_member_map_", "name", "value"]
    rest = sorted(n for n in dir(P) if n not in P.__members__ and n not in first)
    rest += [m.upper() for m in P.__members__] + [m.capitalize() for m in P.__members__] + [f"MineralPhase.{m}" for m in P.__members__] + [""]
    return first + rest


def _fabric_strings():
    from pydrex import core

    out = []
    for name in core.MineralFabric.__members__:
        pre, _, suf = name.partition("_")
        out += [suf, name, suf.lower(), pre, pre + "_", "_" + suf, suf + suf]
    out += ["", " A", "A ", "olivine_", "Olivine_A"]
    seen = []
    for x in out:
        if x not in seen and x not in ("A", "C"):
            seen.append(x)
    return seen


def _io():
    import pydrex.io as pio

    return pio


def t_default_record(sess):
    core = pydrex_modules()["core"]
    sess.encode(core.DefaultParams)
    d = core.DefaultParams()
    frozen = True
    for f in dataclasses.fields(d):
        try:
            setattr(d, f.name, getattr(d, f.name))
            frozen = False
        except dataclasses.FrozenInstanceError:
            pass
    try:
        hash(d)
        hashable = True
    except TypeError:
        hashable = False
    dd = d.as_dict()
    rt = core.DefaultParams(**dd) == d and set(dd) == {f.name for f in dataclasses.fields(d)}
    sess.prove("default record: every field is immutable (assignment raises)", [], z3.BoolVal(frozen))
    sess.prove("default record: hashable (no mutable members)", [], z3.BoolVal(hashable))
    sess.prove("default record: DefaultParams(**d.as_dict()) == d and as_dict has exactly the declared fields", [], z3.BoolVal(rt))
    dd["number_of_grains"] = 9999
    sess.prove("default record: as_dict returns an independent mutable copy", [], z3.BoolVal(d.number_of_grains != 9999))
    sess.satisfiable("default record: reach", [])


def _preset_table():
    import pydrex.mock as mock
    from pydrex.core import DefaultParams

    names = {f.name for f in dataclasses.fields(DefaultParams)}
    out = []
    for cname, cls in sorted(vars(mock).items()):
        if isinstance(cls, type) and issubclass(cls, DefaultParams) and cls is not DefaultParams:
            declared = {k: v for k, v in vars(cls).items() if k in names}
            out.append((cname, cls, declared))
    return out


def t_presets(sess):
    """Finite family, enumerated completely: every preset x every attribute it declares."""
    import pydrex.mock as mock

    sess.encode(mock)
    table = _preset_table()
    sess.bounds["presets"] = f"{len(table)} presets, every declared attribute, attribute access and dictionary form (exhaustive)"
    n = 0
    for cname, cls, declared in table:
        try:
            inst = cls()
            dd = inst.as_dict()
            err = None
        except Exception as e:  # noqa: BLE001
            inst, dd, err = None, {}, e
        for k, v in declared.items():
            n += 1
            ok_attr = err is None and getattr(inst, k) == v and type(getattr(inst, k)) is type(v)
            ok_dict = err is None and dd.get(k) == v
            name = f"preset {cname}.{k}: instance attribute and as_dict() both give the declared value {v!r}"
            q = sess.prove(name, [], z3.BoolVal(bool(ok_attr and ok_dict)))
            if not q.holds:
                sess.cex.append({"name": name, "replay": "vf.props.C19:replay_preset", "case": {"preset": cname, "field": k},
                                 "cls": {"kind": "preset does not yield its declared value", "preset": cname}})
    sess.satisfiable("presets: reach", [])
    sess.paths["presets"] = {"presets": len(table), "declared_values": n}


def replay_preset(case):
    import pydrex.mock as mock

    cls = getattr(mock, case["preset"])
    want = vars(cls)[case["field"]]
    try:
        inst = cls()
        got_a, got_d = getattr(inst, case["field"]), inst.as_dict()[case["field"]]
    except Exception as e:  # noqa: BLE001
        return {"reproduced": True, "detail": f"constructing the preset raised {type(e).__name__}: {e}"}
    return {"reproduced": bool(got_a != want or got_d != want), "detail": {"declared": repr(want), "attribute": repr(got_a), "as_dict": repr(got_d)}}


class Choice:
    """Value of an optional key whose presence does not influence control flow (no fork)."""

    def __init__(self, flag, provided, default):
        self.flag, self.provided, self.default = flag, provided, default

    def __len__(self):
        if len(self.provided) != len(self.default):
            raise sym.Unsupported("len() of a presence-dependent value")
        return len(self.default)

    def __iter__(self):
        if self.provided != self.default:
            raise sym.Unsupported("iteration over a presence-dependent value")
        return iter(self.default)


class FlagDict(dict):
    """dict whose optional keys are present iff a symbolic flag holds."""

    def __init__(self, provided, flags, fork_keys=()):
        super().__init__()
        self.provided, self.flags, self.fork_keys = dict(provided), dict(flags), set(fork_keys)
        self.set_keys = {}

    def _present(self, k):
        if k in self.set_keys:
            return True
        if k not in self.provided:
            return False
        if k in self.flags:
            return bool(self.flags[k])
        return True

    def __contains__(self, k):
        return self._present(k)

    def __getitem__(self, k):
        if k in self.set_keys:
            return self.set_keys[k]
        if self._present(k):
            return self.provided[k]
        raise KeyError(k)

    def get(self, k, default=None):
        if k in self.set_keys:
            return self.set_keys[k]
        if k in self.flags and k not in self.fork_keys and k in self.provided:
            return Choice(self.flags[k], self.provided[k], default)
        return self.provided[k] if self._present(k) else default

    def __setitem__(self, k, v):
        self.set_keys[k] = v

    def keys(self):
        raise sym.Unsupported("FlagDict.keys")


def t_config_params(sess, assemblage, n_fractions, fabric):
    pio = _io()
    core = pydrex_modules()["core"]
    sess.encode(pio._parse_config_params, pio._parse_phase)
    sess.bounds["config_params"] = "all subsets of the optional [parameters] keys (symbolic presence flags), symbolic phase fractions, assemblages and fabric letters incl. invalid ones"
    defaults = core.DefaultParams().as_dict()
    fork_keys = ["phase_assemblage", "phase_fractions", "initial_olivine_fabric", "disl_coefficients"]

    def fn():
        fr = [real(f"phi{i}") for i in range(n_fractions)]
        provided = {k: v for k, v in defaults.items()}
        provided.update(phase_assemblage=list(assemblage), phase_fractions=list(fr), initial_olivine_fabric=fabric,
                        stress_exponent=1.25, gbm_mobility=77, number_of_grains=123, disl_coefficients=[1.0] * 7)
        flags = {k: SymBool(z3.Bool(f"has_{k}")) for k in provided}
        params = FlagDict(provided, flags, fork_keys)
        has_table = SymBool(z3.Bool("has_parameters_table"))
        toml = FlagDict({"parameters": params}, {"parameters": has_table}, ["parameters"])
        if not bool(has_table):
            out = pio._parse_config_params(toml)
            return None, fr, out
        out = pio._parse_config_params(toml)
        return params, fr, out

    with np_installed(pio):
        paths, info = sym.explore(fn, catch=(Exception,), max_paths=200)
    tag = f"config params[{assemblage}, {n_fractions} fraction(s), fabric {fabric}]"
    sess.paths[tag] = {"paths": len(paths)}
    P, F = core.MineralPhase, core.MineralFabric
    valid_names = all((a in P.__members__) if isinstance(a, str) else (a in [int(x) for x in P]) for a in assemblage)
    reached = False
    reported = {}
    for k, p in enumerate(paths):
        pt = f"{tag} path {k}"
        flagv = {key: z3.Bool(f"has_{key}") for key in defaults}
        has_tab = z3.Bool("has_parameters_table")
        if p.exc is not None:
            if isinstance(p.exc, sym.Unsupported):
                sess.prove(f"{pt}: unmodelled operation {p.exc}", p.pc, z3.BoolVal(False))
                continue
            ok_type = type(p.exc).__name__ == "ConfigError"
            name = f"{pt}: the only exception a configuration may raise is ConfigError (got {type(p.exc).__name__}: {str(p.exc)[:60]})"
            q = sess.prove(name, p.pc, z3.BoolVal(ok_type))
            if not q.holds:
                kind = f"{type(p.exc).__name__} instead of a default or ConfigError"
                m = solve_model(p.pc)
                ce = {"name": name, "case": {"omit": [kk for kk in fork_keys if m is not None and not z3.is_true(m.eval(flagv[kk], model_completion=True))],
                                             "assemblage": assemblage, "fabric": fabric},
                      "cls": {"kind": kind, "parser": "_parse_config_params"}}
                if kind not in reported:
                    reported[kind] = name
                    ce["replay"] = "vf.props.C19:replay_config"
                else:
                    ce["same_as"] = reported[kind]
                sess.cex.append(ce)
                continue
            # ConfigError only for configurations that violate a documented constraint
            fr = [real(f"phi{i}") for i in range(n_fractions)]
            tot = sum(fr, R(0))
            use_fr = z3.And(has_tab, flagv["phase_fractions"])
            use_as = z3.And(has_tab, flagv["phase_assemblage"])
            use_fab = z3.And(has_tab, flagv["initial_olivine_fabric"])
            bad_sum = z3.And(use_fr, z3.Or((tot - 1 > R(1e-16)).z3(), (1 - tot > R(1e-16)).z3()))
            n_as = z3.If(use_as, len(assemblage), 1)
            n_fr = z3.If(use_fr, n_fractions, 1)
            bad_len = n_as != n_fr
            bad_phase = z3.And(use_as, z3.BoolVal(not valid_names))
            bad_fab = z3.And(use_fab, z3.BoolVal(("olivine_" + fabric) not in F.__members__))
            sess.prove(f"{pt}: ConfigError only when a documented constraint is violated (sum != 1, length mismatch, unknown phase, unknown fabric)", p.pc,
                       z3.Or(bad_sum, bad_len, bad_phase, bad_fab))
            continue
        params, fr, out = p.value
        if not reached:
            reached = sess.satisfiable(f"{pt}: reach", p.pc).verdict == "sat"
        ok = isinstance(out["phase_assemblage"], tuple) and all(isinstance(x, P) for x in out["phase_assemblage"]) and isinstance(out["initial_olivine_fabric"], F)
        qe = sess.prove(f"{pt}: phases and fabric are enumeration-typed, phases in a tuple", p.pc, z3.BoolVal(bool(ok)))
        if not qe.holds and all(isinstance(a, str) for a in assemblage):
            ce = {"name": qe.name, "case": {"assemblage": list(assemblage)}, "cls": {"kind": "unknown phase name accepted", "parser": "_parse_phase"}}
            first = getattr(sess, "_phase_cex", None)
            if first is None:
                sess._phase_cex = qe.name
                ce["replay"] = "vf.props.C19:replay_phase"
            else:
                ce["same_as"] = first
            sess.cex.append(ce)
        # when the key is given, the parsed fabric is the OLIVINE fabric of that letter -- and a string that names none
        # (another phase's fabric, a full member name, ...) cannot come back as a value at all
        present = z3.And(has_tab, flagv["initial_olivine_fabric"])
        want_fab = F.__members__.get("olivine_" + fabric) if isinstance(fabric, str) else None
        qf = sess.prove(f"{pt}: a supplied fabric {fabric!r} is returned as MineralFabric.olivine_{fabric} (and refused when there is no such member)", list(p.pc) + [present],
                        z3.BoolVal(want_fab is not None and out["initial_olivine_fabric"] is want_fab))
        if not qf.holds and isinstance(fabric, str):
            ce = {"name": qf.name, "case": {"fabric": fabric}, "cls": {"kind": "fabric string mis-parsed", "fabric": fabric}}
            first = getattr(sess, "_fabric_cex", None)
            if first is None:
                sess._fabric_cex = qf.name
                ce["replay"] = "vf.props.C19:replay_fabric"
            else:
                ce["same_as"] = first
            sess.cex.append(ce)
        fr_out = out["phase_fractions"]
        sess.prove(f"{pt}: equal-length phase and fraction lists", p.pc, z3.BoolVal(len(out["phase_assemblage"]) == len(fr_out)))
        tot = sum((R(x) for x in fr_out), R(0))
        sess.prove(f"{pt}: fractions sum to one (|sum - 1| <= 1e-16)", p.pc, z3.And((tot - 1 <= R(1e-16)).z3(), (1 - tot <= R(1e-16)).z3()))
        # every absent optional key takes its documented default
        for key, dv in defaults.items():
            got = out[key]
            if isinstance(got, Choice):
                okc = got.default == dv and got.flag.z3().eq(flagv[key])
                sess.prove(f"{pt}: '{key}': provided value when present, documented default {dv!r} when absent", p.pc, z3.BoolVal(bool(okc)))
            else:
                if key == "phase_assemblage":
                    want_def = tuple(dv)
                elif key == "disl_coefficients":
                    want_def = tuple(dv)
                else:
                    want_def = dv
                absent = z3.Or(z3.Not(has_tab), z3.Not(flagv[key]))
                same = _same(got, want_def)
                sess.prove(f"{pt}: '{key}' takes its documented default when omitted", list(p.pc) + [absent], z3.BoolVal(bool(same)) if isinstance(same, bool) else same)
    if not reached:
        sess.reach.append(solve.QueryResult(f"{tag}: reach", "unknown" if valid_names and ("olivine_" + fabric) in F.__members__ and len(assemblage) == n_fractions else "sat", None, 0.0))


def _same(a, b):
    try:
        if isinstance(a, (list, tuple)) and isinstance(b, (list, tuple)):
            if len(a) != len(b):
                return False
            res = [_same(x, y) for x, y in zip(a, b)]
            if all(isinstance(r, bool) for r in res):
                return all(res)
            return z3.And(*[z3.BoolVal(r) if isinstance(r, bool) else r for r in res])
        if isinstance(a, R) or isinstance(b, R):
            return eq(a, b)
        return bool(a == b) and type(a) is type(b)
    except Exception:  # noqa: BLE001
        return False


def solve_model(pc):
    s = z3.Solver()
    s.set("timeout", 5000)
    for c in pc:
        s.add(c)
    return s.model() if s.check() == z3.sat else None


def replay_config(case):
    """Public API: a TOML file that supplies the required inputs and omits documented-optional keys."""
    import os
    import tempfile

    import pydrex.io as pio
    from pydrex import exceptions

    d = tempfile.mkdtemp(prefix="c19_")
    lines = ["[input]", 'velocity_gradient = ["simple_shear_2d", "Y", "X", 5e-6]', 'locations_initial = "start.scsv"', "timestep = 1e9", ""]
    with open(os.path.join(d, "start.scsv"), "w") as f:
        f.write("---\nschema:\n  delimiter: ','\n  missing: '-'\n  fields:\n    - name: X\n      type: float\n      fill: NaN\n    - name: Y\n      type: float\n      fill: NaN\n---\nX,Y\n1.0,2.0\n")
    out_keys = case.get("output_keys")
    if out_keys is not None:
        lines.append("[output]")
        for k, v in out_keys.items():
            lines.append(f"{k} = {v}")
        lines.append("")
    lines.append("[parameters]")
    omit = set(case.get("omit", []))
    if "phase_assemblage" not in omit and case.get("assemblage"):
        lines.append("phase_assemblage = [" + ", ".join((f'"{a}"' if isinstance(a, str) else str(a)) for a in case["assemblage"]) + "]")
        if "phase_fractions" not in omit:
            n = len(case["assemblage"])
            lines.append("phase_fractions = [" + ", ".join(["0.5", "0.5"][:n] if n == 2 else ["1.0"]) + "]")
    if "initial_olivine_fabric" not in omit and case.get("fabric"):
        lines.append(f'initial_olivine_fabric = "{case["fabric"]}"')
    lines.append("stress_exponent = 1.5")
    p = os.path.join(d, "conf.toml")
    with open(p, "w") as f:
        f.write("\n".join(lines) + "\n")
    cwd = os.getcwd()
    os.chdir(d)
    try:
        cfg = pio.parse_config(p)
        return {"reproduced": False, "detail": "parsed"}
    except exceptions.ConfigError as e:
        return {"reproduced": False, "detail": f"ConfigError: {e}"}
    except Exception as e:  # noqa: BLE001
        return {"reproduced": True, "detail": f"{type(e).__name__}: {e}", "config": lines}
    finally:
        os.chdir(cwd)


def replay_phase(case):
    """Public API: a TOML file whose phase_assemblage holds the given names (fraction 1 each... summing to one): only the
    members of MineralPhase parse, to that member; every other string is a ConfigError."""
    import os
    import tempfile

    import pydrex.io as pio
    from pydrex import core, exceptions

    d = tempfile.mkdtemp(prefix="c19p_")
    with open(os.path.join(d, "start.scsv"), "w") as f:
        f.write("---\nschema:\n  delimiter: ','\n  missing: '-'\n  fields:\n    - name: X\n      type: float\n      fill: NaN\n    - name: Y\n      type: float\n      fill: NaN\n---\nX,Y\n1.0,2.0\n")
    problems = []
    cwd = os.getcwd()
    os.chdir(d)
    try:
        for nm in list(case.get("assemblage", [])) + ["olivine", "enstatite", "mro", "real", "__doc__", "_member_map_", "name", "Olivine", "MineralPhase.olivine", ""]:
            with open("conf.toml", "w") as f:
                f.write('[input]\nvelocity_gradient = ["simple_shear_2d", "Y", "X", 5e-6]\nlocations_initial = "start.scsv"\ntimestep = 1e9\n[parameters]\n'
                        + f'phase_assemblage = ["{nm}"]\nphase_fractions = [1.0]\n')
            want = core.MineralPhase.__members__.get(nm)
            try:
                got = pio.parse_config("conf.toml")["parameters"]["phase_assemblage"]
                if want is None or len(got) != 1 or got[0] is not want:
                    problems.append(f'phase_assemblage = ["{nm}"] parsed as {got!r}'[:160])
            except exceptions.ConfigError:
                if want is not None:
                    problems.append(f'phase_assemblage = ["{nm}"] refused')
            except Exception as e:  # noqa: BLE001
                problems.append(f'phase_assemblage = ["{nm}"]: {type(e).__name__} instead of ConfigError')
    finally:
        os.chdir(cwd)
    return {"reproduced": bool(problems), "detail": sorted(set(problems))[:6] or "phase names parsed as documented"}


def replay_fabric(case):
    """Public API: a TOML file whose initial_olivine_fabric is the given string: "A".."E" parse to that olivine fabric,
    every other string is a ConfigError."""
    import os
    import tempfile

    import pydrex.io as pio
    from pydrex import core, exceptions

    d = tempfile.mkdtemp(prefix="c19f_")
    with open(os.path.join(d, "start.scsv"), "w") as f:
        f.write("---\nschema:\n  delimiter: ','\n  missing: '-'\n  fields:\n    - name: X\n      type: float\n      fill: NaN\n    - name: Y\n      type: float\n      fill: NaN\n---\nX,Y\n1.0,2.0\n")
    problems = []
    cwd = os.getcwd()
    os.chdir(d)
    try:
        for fab in [case["fabric"]] + ["A", "B", "C", "D", "E", "AB", "F", "olivine_A", "enstatite_AB", "a", ""]:
            with open("conf.toml", "w") as f:
                f.write('[input]\nvelocity_gradient = ["simple_shear_2d", "Y", "X", 5e-6]\nlocations_initial = "start.scsv"\ntimestep = 1e9\n[parameters]\n'
                        + f'initial_olivine_fabric = "{fab}"\n')
            want = core.MineralFabric.__members__.get("olivine_" + fab)
            try:
                got = pio.parse_config("conf.toml")["parameters"]["initial_olivine_fabric"]
                if want is None or got is not want:
                    problems.append(f'initial_olivine_fabric = "{fab}" parsed as {got!r}')
            except exceptions.ConfigError:
                if want is not None:
                    problems.append(f'initial_olivine_fabric = "{fab}" refused')
            except Exception as e:  # noqa: BLE001
                problems.append(f'initial_olivine_fabric = "{fab}": {type(e).__name__} instead of ConfigError')
    finally:
        os.chdir(cwd)
    return {"reproduced": bool(problems), "detail": sorted(set(problems))[:6] or "fabric strings parsed as documented"}


def t_config_output(sess, assemblage):
    """The [output] tail of parse_config (real code) for every subset of the optional output keys."""
    pio = _io()
    core = pydrex_modules()["core"]
    sess.encode(pio.parse_config, pio._parse_output_options)
    P = core.MineralPhase
    okeys = ["directory", "raw_output", "diagnostics", "anisotropy", "paths", "log_level"]

    def fake_resolve(path, refdir=None):
        return pathlib.Path("/nonexistent") / str(path)

    class FakeToml:
        @staticmethod
        def load(f):
            return holder["toml"]

    holder = {}

    class FakeOpen:
        def __init__(self, *a, **k):
            pass

        def __enter__(self):
            return self

        def __exit__(self, *a):
            return False

    def fn():
        flags = {k: SymBool(z3.Bool(f"has_{k}")) for k in okeys}
        provided = dict(directory="out", raw_output=["olivine"], diagnostics=["olivine"], anisotropy=True, paths=["p.scsv"], log_level="DEBUG")
        out_tab = FlagDict(provided, flags, okeys)
        has_out = SymBool(z3.Bool("has_output_table"))
        toml = FlagDict({"name": "x", "parameters": {"phase_assemblage": list(assemblage), "phase_fractions": [1.0 / len(assemblage)] * len(assemblage),
                                                       "initial_olivine_fabric": "A"},
                         "input": {"timestep": 1.0}, "output": out_tab}, {"output": has_out}, ["output"])
        holder["toml"] = toml
        cfg = pio.parse_config("conf.toml")
        try:
            o = cfg["output"]
        except KeyError:
            raise KeyError("the parsed configuration has no 'output' entry") from None
        return {"output": {kk: o[kk] for kk in okeys if kk in o}}

    with np_installed(pio), patched((pio, "resolve_path", fake_resolve), (pio, "tomllib", FakeToml), (pio, "open", FakeOpen)):
        paths, info = sym.explore(fn, catch=(Exception,), max_paths=400)
    tag = f"config output[{assemblage}]"
    sess.paths[tag] = {"paths": len(paths)}
    reached = False
    reported = {}
    flagv = {k: z3.Bool(f"has_{k}") for k in okeys}
    has_out = z3.Bool("has_output_table")
    for k, p in enumerate(paths):
        pt = f"{tag} path {k}"
        if p.exc is not None:
            name = f"{pt}: omitting documented-optional [output] keys must not raise (got {type(p.exc).__name__}: {str(p.exc)[:60]})"
            q = sess.prove(name, p.pc, z3.BoolVal(False))
            if not q.holds and not isinstance(p.exc, sym.Unsupported):
                m = solve_model(p.pc)
                present = {kk: (m is not None and z3.is_true(m.eval(flagv[kk], model_completion=True))) for kk in okeys}
                has_o = m is not None and z3.is_true(m.eval(has_out, model_completion=True))
                vals = dict(directory='"out"', raw_output='["olivine"]', diagnostics='["olivine"]', anisotropy="true", paths='["p.scsv"]', log_level='"DEBUG"')
                kind = f"{type(p.exc).__name__} when optional output keys are omitted"
                ce = {"name": name, "case": {"assemblage": assemblage, "fabric": "A", "omit": [],
                                             "output_keys": ({kk: vals[kk] for kk in okeys if present[kk]} if has_o else None)},
                      "cls": {"kind": kind, "parser": "parse_config/[output]"}}
                if kind not in reported:
                    reported[kind] = name
                    ce["replay"] = "vf.props.C19:replay_config"
                else:
                    ce["same_as"] = reported[kind]
                sess.cex.append(ce)
            continue
        cfg = p.value
        out = cfg["output"]
        if not reached:
            reached = sess.satisfiable(f"{pt}: reach", p.pc).verdict == "sat"
        phases = tuple(getattr(P, a) for a in assemblage)
        absent = lambda key: z3.Or(z3.Not(has_out), z3.Not(flagv[key]))  # noqa: E731
        for key in ("raw_output", "diagnostics"):
            ok = all(isinstance(x, P) for x in out[key])
            sess.prove(f"{pt}: '{key}' is a list of enumeration-typed phases", p.pc, z3.BoolVal(bool(ok)))
            sess.prove(f"{pt}: '{key}' defaults to all simulated phases when omitted", list(p.pc) + [absent(key)], z3.BoolVal(tuple(out[key]) == phases))
        sess.prove(f"{pt}: 'paths' defaults to None and 'log_level' to WARNING when omitted", list(p.pc), z3.And(
            z3.Implies(absent("paths"), z3.BoolVal(out["paths"] is None)), z3.Implies(absent("log_level"), z3.BoolVal(out["log_level"] == "WARNING"))))
        name = f"{pt}: user-supplied output 'paths' are kept when the input section has no pathline input"
        q = sess.prove(name, list(p.pc) + [z3.Not(absent("paths"))], z3.BoolVal(out["paths"] == ["p.scsv"]))
        if not q.holds:
            ce = {"name": name, "case": {}, "cls": {"kind": "user-supplied output paths discarded"}}
            if "paths" not in reported:
                reported["paths"] = name
                ce["replay"] = "vf.props.C19:replay_output_paths"
            else:
                ce["same_as"] = reported["paths"]
            sess.cex.append(ce)
        sess.prove(f"{pt}: 'anisotropy' has a default when omitted and an output directory is always set", p.pc,
                   z3.BoolVal(out.get("anisotropy") is not None and out.get("directory") is not None))
    if not reached:
        sess.reach.append(solve.QueryResult(f"{tag}: reach", "unknown", None, 0.0))


def t_config_input(sess):
    pio = _io()
    sess.encode(pio._parse_config_input_common)
    ikeys = ["timestep", "strain_final", "paths"]

    def fn():
        flags = {k: SymBool(z3.Bool(f"has_{k}")) for k in ikeys}
        inp = FlagDict(dict(timestep=2.5, strain_final=3, paths=["a.npz"]), flags, ikeys)
        has_in = SymBool(z3.Bool("has_input_table"))
        toml = FlagDict({"input": inp}, {"input": has_in}, ["input"])
        return pio._parse_config_input_common(toml, "conf.toml")

    with np_installed(pio):
        paths, info = sym.explore(fn, catch=(Exception,))
    f = {k: z3.Bool(f"has_{k}") for k in ikeys}
    has_in = z3.Bool("has_input_table")
    sess.paths["config_input"] = {"paths": len(paths)}
    for k, p in enumerate(paths):
        pt = f"config input path {k}"
        if p.exc is not None:
            sess.prove(f"{pt}: only ConfigError may be raised (got {type(p.exc).__name__})", p.pc, z3.BoolVal(type(p.exc).__name__ == "ConfigError"))
            sess.prove(f"{pt}: ConfigError only without an [input] table or without both timestep and paths", p.pc,
                       z3.Or(z3.Not(has_in), z3.And(z3.Not(f["timestep"]), z3.Not(f["paths"]))))
            continue
        out = p.value
        sess.satisfiable(f"{pt}: reach", p.pc)
        ts, sf = out["timestep"], out["strain_final"]
        sess.prove(f"{pt}: timestep defaults to NaN and strain_final to inf when omitted", p.pc, z3.And(
            z3.Implies(z3.Not(f["timestep"]), z3.BoolVal(isinstance(ts, float) and ts != ts)),
            z3.Implies(z3.Not(f["strain_final"]), z3.BoolVal(sf == float("inf"))),
            z3.Implies(f["timestep"], z3.BoolVal(ts == 2.5)), z3.Implies(f["strain_final"], z3.BoolVal(sf == 3))))


def t_config_modes(sess):
    """The three documented input modes of parse_config (real code; file readers are recording stand-ins): which
    mode is taken for every subset of the mode keys, what is read from where, which inputs are reset, and the
    interplay with the output pathline names.  Documented required companions are assumed present (a mesh comes with
    final locations, a velocity-gradient callable with initial locations)."""
    pio = _io()
    sess.encode(pio.parse_config, pio._parse_config_input_steadymesh, pio._parse_config_input_calcpaths, pio._parse_config_input_postpaths)
    sess.bounds["config_modes"] = "all subsets of {mesh, velocity_gradient, paths, locations_initial, locations_final} in [input] and of {paths} in [output]"
    sess.assume_env("meshio.read, read_scsv, np.load return what is stored at the path they are given (recording stand-ins)")
    ikeys = ["mesh", "velocity_gradient", "paths", "locations_initial", "locations_final"]

    def fake_resolve(path, refdir=None):
        return pathlib.Path("/cfgdir" if refdir is not None else "/cwd") / str(path)

    holder = {}

    class FakeToml:
        @staticmethod
        def load(f):
            return holder["toml"]

    class FakeOpen:
        def __init__(self, *a, **k):
            pass

        def __enter__(self):
            return self

        def __exit__(self, *a):
            return False

    class FakeMeshio:
        @staticmethod
        def read(path, *a, **k):
            return ("mesh", str(path))

    proxy = NpProxy()
    proxy.load = lambda path, *a, **k: ("npz", str(path))

    def fn():
        c = sym.ctx()
        flags = {k: SymBool(z3.Bool(f"in_{k}")) for k in ikeys}
        c.assume(z3.Implies(z3.Bool("in_mesh"), z3.Bool("in_locations_final")))
        c.assume(z3.Implies(z3.And(z3.Not(z3.Bool("in_mesh")), z3.Bool("in_velocity_gradient")), z3.Bool("in_locations_initial")))
        provided = dict(timestep=1.0, mesh="m.vtu", velocity_gradient=["simple_shear_2d", "Y", "X", 5e-6], paths=["p1.npz", "p2.npz"],
                        locations_initial="li.scsv", locations_final="lf.scsv")
        inp = FlagDict(provided, flags, ikeys)
        out_tab = FlagDict(dict(paths=["o.scsv"]), {"paths": SymBool(z3.Bool("out_paths"))}, ["paths"])
        toml = {"name": "x", "parameters": {"phase_assemblage": ["olivine"], "phase_fractions": [1.0], "initial_olivine_fabric": "A"}, "input": inp, "output": out_tab}
        holder["toml"] = toml
        cfg = pio.parse_config("conf.toml")
        i = cfg["input"]
        return {k: (i[k] if k in i else "<absent>") for k in ikeys}, cfg["output"]["paths"]

    class Quiet:
        def __getattr__(self, k_):
            return lambda *a, **kw: None

    with patched((pio, "np", proxy), (pio, "resolve_path", fake_resolve), (pio, "tomllib", FakeToml), (pio, "open", FakeOpen), (pio, "meshio", FakeMeshio),
                 (pio, "read_scsv", lambda path, *a, **k: ("scsv", str(path))), (pio, "_log", Quiet())):
        paths, info = sym.explore(fn, catch=(Exception,), max_paths=400)
    tag = "config modes"
    sess.paths[tag] = {"paths": len(paths)}
    B = {k: z3.Bool(f"in_{k}") for k in ikeys}
    outp = z3.Bool("out_paths")
    mesh_mode, calc_mode = B["mesh"], z3.And(z3.Not(B["mesh"]), B["velocity_gradient"])
    post_mode = z3.And(z3.Not(B["mesh"]), z3.Not(B["velocity_gradient"]), B["paths"])
    none_mode = z3.And(z3.Not(B["mesh"]), z3.Not(B["velocity_gradient"]), z3.Not(B["paths"]))
    reached = set()
    for k, p in enumerate(paths):
        pt = f"{tag} path {k}"
        if p.exc is not None:
            sess.prove(f"{pt}: a configuration with the documented required inputs parses (got {type(p.exc).__name__}: {str(p.exc)[:60]})", p.pc, z3.BoolVal(False))
            continue
        i, opaths = p.value
        vg = i["velocity_gradient"]
        facts = {
            "mesh": i["mesh"] == ("mesh", "/cfgdir/m.vtu") and i["locations_final"] == ("scsv", "/cfgdir/lf.scsv") and vg is None and i["locations_initial"] is None and i["paths"] is None,
            "calc": isinstance(vg, tuple) and len(vg) == 2 and all(callable(x) for x in vg) and i["locations_initial"] == ("scsv", "/cfgdir/li.scsv")
                    and i["locations_final"] is None and i["paths"] is None and i["mesh"] is None,
            "post": i["paths"] == [("npz", "/cfgdir/p1.npz"), ("npz", "/cfgdir/p2.npz")] and i["locations_initial"] is None and i["locations_final"] is None and i["mesh"] is None,
            "none": i["paths"] is None,
        }
        for mode, cond in (("mesh", mesh_mode), ("calc", calc_mode), ("post", post_mode), ("none", none_mode)):
            q = sess.prove(f"{pt}: mode '{mode}' is taken exactly for its key pattern (mesh > velocity_gradient > paths), reads its files relative to the configuration file and resets the other inputs",
                           list(p.pc) + [cond], z3.BoolVal(bool(facts[mode])))
            if solve_model(list(p.pc) + [cond]) is not None:
                reached.add(mode)
        if k == 0:
            sess.satisfiable(f"{tag}: reach", p.pc)
        has_in_paths = i["paths"] is not None
        sess.prove(f"{pt}: output pathline names are dropped iff pathlines are an input, kept otherwise, None when omitted", p.pc,
                   z3.And(z3.Implies(z3.Not(outp), z3.BoolVal(opaths is None)),
                          z3.Implies(outp, z3.BoolVal((opaths is None) if has_in_paths else (opaths == ["o.scsv"])))))
    sess.prove(f"{tag}: all four modes reached", [], z3.BoolVal(reached == {"mesh", "calc", "post", "none"}))


def t_config_special_values(sess):
    """Values the real-arithmetic model cannot represent (NaN, infinities) and wrongly typed entries that TOML can
    nevertheless express: the real _parse_config_params on a finite table of them (concrete evaluation).  Every entry
    violates "fractions sum to one / enumeration-typed phases and fabric", so each must raise ConfigError."""
    pio = _io()
    core = pydrex_modules()["core"]
    sess.encode(pio._parse_config_params)
    nan, inf = float("nan"), float("inf")
    bad = {
        "fractions [nan]": dict(phase_assemblage=["olivine"], phase_fractions=[nan]),
        "fractions [nan, 0.5]": dict(phase_assemblage=["olivine", "enstatite"], phase_fractions=[nan, 0.5]),
        "fractions [inf, -inf]": dict(phase_assemblage=["olivine", "enstatite"], phase_fractions=[inf, -inf]),
        "fractions [inf]": dict(phase_assemblage=["olivine"], phase_fractions=[inf]),
        "fabric 1 (integer)": dict(initial_olivine_fabric=1),
        "fabric 1.5 (float)": dict(initial_olivine_fabric=1.5),
        "fabric ['A'] (list)": dict(initial_olivine_fabric=["A"]),
        "fabric 'a' (lower case)": dict(initial_olivine_fabric="a"),
        "phase 0.0 (float)": dict(phase_assemblage=[0.0], phase_fractions=[1.0]),
        "phase -1": dict(phase_assemblage=[-1], phase_fractions=[1.0]),
        "phase 'Olivine'": dict(phase_assemblage=["Olivine"], phase_fractions=[1.0]),
    }
    good = {
        "fractions [1] (integer one)": dict(phase_assemblage=["olivine"], phase_fractions=[1]),
        "fractions [0.25, 0.75]": dict(phase_assemblage=["enstatite", "olivine"], phase_fractions=[0.25, 0.75]),
        "fractions [-0.0, 1.0]": dict(phase_assemblage=["enstatite", "olivine"], phase_fractions=[-0.0, 1.0]),
    }
    sess.satisfiable("config special values: reach", [])
    first = None
    for label, tab in bad.items():
        try:
            pio._parse_config_params({"parameters": dict(tab)})
            res = "accepted"
        except Exception as e:  # noqa: BLE001
            res = type(e).__name__
        q = sess.prove(f"config special values: {label} raises ConfigError (got: {res})", [], z3.BoolVal(res == "ConfigError"))
        if not q.holds:
            ce = {"name": q.name, "case": {}, "cls": {"kind": "invalid special-valued configuration not refused with ConfigError", "entry": label, "outcome": res}}
            if first is None:
                first = q.name
                ce["replay"] = "vf.props.replays:c19_config"
            else:
                ce["same_as"] = first
            sess.cex.append(ce)
    for label, tab in good.items():
        try:
            out = pio._parse_config_params({"parameters": dict(tab)})
            ok = len(out["phase_assemblage"]) == len(out["phase_fractions"]) and abs(sum(out["phase_fractions"]) - 1) <= 1e-16 and all(
                isinstance(x, core.MineralPhase) for x in out["phase_assemblage"]) and isinstance(out["initial_olivine_fabric"], core.MineralFabric)
            res = "parsed" if ok else "parsed with inconsistent lists"
        except Exception as e:  # noqa: BLE001
            res = type(e).__name__
        sess.prove(f"config special values: {label} parses with consistent, enumeration-typed lists (got: {res})", [], z3.BoolVal(res == "parsed"))


def default_cex(name):
    """Generic public-API replay for verdicts that carry no more specific counterexample."""
    if name.startswith("config modes"):
        return {"replay": "vf.props.C19:replay_config_modes", "case": {}, "cls": {"kind": "input mode of the configuration mis-parsed"}}
    return {"replay": "vf.props.replays:c19_config", "case": {}, "cls": {"kind": "configuration / parameter record deviates from what it declares"}}


def replay_output_paths(case):
    import os
    import tempfile

    import pydrex.io as pio

    d = tempfile.mkdtemp(prefix="c19_")
    with open(os.path.join(d, "start.scsv"), "w") as f:
        f.write("---\nschema:\n  delimiter: ','\n  missing: '-'\n  fields:\n    - name: X\n      type: float\n      fill: NaN\n---\nX\n1.0\n")
    with open(os.path.join(d, "c.toml"), "w") as f:
        f.write('[input]\nvelocity_gradient = ["simple_shear_2d", "Y", "X", 5e-6]\nlocations_initial = "start.scsv"\ntimestep = 1e9\n[output]\npaths = ["pathline001.scsv"]\n')
    cwd = os.getcwd()
    os.chdir(d)
    try:
        cfg = pio.parse_config("c.toml")
    finally:
        os.chdir(cwd)
    got = cfg["output"]["paths"]
    return {"reproduced": got != ["pathline001.scsv"], "detail": {"output.paths": got, "input.paths": cfg["input"].get("paths")}}


def replay_config_modes(case):
    """Real files (mesh, SCSV, NPZ) for every mode-key pattern: mode taken, files read, other inputs reset, output paths."""
    import os
    import tempfile

    import meshio
    import numpy as np
    import pydrex.io as pio

    d = tempfile.mkdtemp(prefix="c19_")
    meshio.write_points_cells(os.path.join(d, "m.vtu"), np.array([[0.0, 0.0, 0.0], [1.0, 0.0, 0.0], [0.0, 1.0, 0.0]]), [("triangle", np.array([[0, 1, 2]]))])
    for nm in ("li.scsv", "lf.scsv"):
        pio.save_scsv(os.path.join(d, nm), {"delimiter": ",", "missing": "-", "fields": [{"name": "x", "type": "float", "fill": "NaN"}, {"name": "z", "type": "float", "fill": "NaN"}]},
                      [[0.0, 1.0], [0.5, 0.25]])
    np.savez(os.path.join(d, "p1.npz"), a=np.arange(3))
    np.savez(os.path.join(d, "p2.npz"), a=np.arange(4))
    problems = []
    lines = {"mesh": 'mesh = "m.vtu"', "velocity_gradient": 'velocity_gradient = ["simple_shear_2d", "Y", "X", 5e-6]', "paths": 'paths = ["p1.npz", "p2.npz"]',
             "locations_initial": 'locations_initial = "li.scsv"', "locations_final": 'locations_final = "lf.scsv"'}
    n = 0
    for keys in it.chain.from_iterable(it.combinations(list(lines), r) for r in range(6)):
        if ("mesh" in keys and "locations_final" not in keys) or ("mesh" not in keys and "velocity_gradient" in keys and "locations_initial" not in keys):
            continue
        for outp in (False, True):
            n += 1
            f = os.path.join(d, f"c{n}.toml")
            with open(f, "w") as fh:
                fh.write("[input]\ntimestep = 1.0\n" + "\n".join(lines[k] for k in keys) + "\n[output]\n" + ('paths = ["o.scsv"]\n' if outp else ""))
            where = f"input keys {list(keys)}, output paths {'given' if outp else 'omitted'}"
            try:
                cfg = pio.parse_config(f)
            except Exception as e:  # noqa: BLE001
                problems.append(f"{where}: {type(e).__name__}: {str(e)[:80]}")
                continue
            i = {kk: cfg["input"].get(kk, "<absent>") for kk in lines}
            mode = "mesh" if "mesh" in keys else "calc" if "velocity_gradient" in keys else "post" if "paths" in keys else "none"
            if mode == "mesh":
                ok = isinstance(i["mesh"], meshio.Mesh) and len(i["mesh"].points) == 3 and tuple(i["locations_final"].x) == (0.0, 1.0) and i["velocity_gradient"] is None \
                    and i["locations_initial"] is None and i["paths"] is None
            elif mode == "calc":
                vg = i["velocity_gradient"]
                ok = isinstance(vg, tuple) and len(vg) == 2 and callable(vg[0]) and np.allclose(vg[1](np.nan, np.zeros(3))[1, 0], 1e-5) and tuple(i["locations_initial"].z) == (0.5, 0.25) \
                    and i["locations_final"] is None and i["paths"] is None and i["mesh"] is None
            elif mode == "post":
                ok = isinstance(i["paths"], list) and [len(x["a"]) for x in i["paths"]] == [3, 4] and i["locations_initial"] is None and i["locations_final"] is None and i["mesh"] is None
            else:
                ok = i["paths"] is None
            if not ok:
                problems.append(f"{where}: mode '{mode}' mis-parsed")
            want = None if (not outp or mode == "post") else ["o.scsv"]
            if cfg["output"]["paths"] != want:
                problems.append(f"{where}: output paths {cfg['output']['paths']!r}, expected {want!r}")
    return {"reproduced": bool(problems), "detail": problems[:6] or f"{n} configurations parsed as documented"}
