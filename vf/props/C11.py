"""C11 -- elastic tensor representations are mutually consistent, norm-preserving maps.

Every function of pydrex/tensors.py is executed on fully symbolic inputs (real source, `np`
rebound to the symbolic proxy); the claims are polynomial identities decided by z3.
"""

from __future__ import annotations

import itertools as it
from fractions import Fraction

import numpy as np
import z3

from .. import poly, quat, sym
from ..sarr import SArr, sarr
from ..sym import R, real
from .common import all_eq, eq, ident_mismatches, np_installed, pydrex_modules, sample, single_path

TIMEOUT_MS = {"quick": 120000, "thorough": 600000}


def tasks(tier):
    t = [
        ("t_voigt_maps", {}),
        ("t_vector_maps", {}),
        ("t_rotate_law", {}),
        ("t_projectors", {}),
        ("t_invariants", {}),
        ("t_polar_left", {}),
    ]
    if tier == "thorough":
        t += [("t_rotate_group", {}), ("t_rotate_norm", {}), ("t_polar_right", {}), ("t_polar_psd", {})]
    return t


def _sym66(prefix="m", symmetric=False):
    a = np.empty((6, 6), dtype=object)
    for i in range(6):
        for j in range(6):
            a[i, j] = real(f"{prefix}{min(i, j)}{max(i, j)}") if symmetric else real(f"{prefix}{i}{j}")
    return a.view(SArr)


def _voigt_index(p, q):
    # the documented Voigt convention: 11->0 22->1 33->2 23->3 13->4 12->5
    return p if p == q else 6 - p - q


def t_voigt_maps(sess):
    T = pydrex_modules()["tensors"]
    sess.encode(T.voigt_to_elastic_tensor, T.elastic_tensor_to_voigt, T.voigt_decompose, T.upper_tri_to_symmetric)
    sess.bounds["voigt_maps"] = "all 81 (p,q,r,s) and 36 (i,j) index tuples; 36 free matrix entries + symmetry assumption"

    def fn():
        M = _sym66("m")
        ten = T.voigt_to_elastic_tensor(M)
        back = T.elastic_tensor_to_voigt(ten)
        dil, dev = T.voigt_decompose(M)
        return M, ten, back, dil, dev

    with np_installed(T):
        p = single_path(fn)
    M, ten, back, dil, dev = p.value
    symm = [eq(M[i, j], M[j, i]) for i in range(6) for j in range(i + 1, 6)]
    pc = p.pc + symm
    sess.satisfiable("voigt_maps:reach", pc + [zb_ne(M[0, 1], 0)])
    # index map = documented convention, for all 81 tuples (no symmetry assumption needed)
    cl = [eq(ten[p_, q, r, s], M[_voigt_index(p_, q), _voigt_index(r, s)]) for p_, q, r, s in it.product(range(3), repeat=4)]
    sess.prove("voigt_to_elastic_tensor: T[pqrs] = M[voigt(pq), voigt(rs)] for all 81 tuples", p.pc, z3.And(*cl))
    minor = [z3.And(eq(ten[a, b, c, d], ten[b, a, c, d]), eq(ten[a, b, c, d], ten[a, b, d, c])) for a, b, c, d in it.product(range(3), repeat=4)]
    sess.prove("voigt_to_elastic_tensor: minor symmetries", p.pc, z3.And(*minor))
    major = [eq(ten[a, b, c, d], ten[c, d, a, b]) for a, b, c, d in it.product(range(3), repeat=4)]
    sess.prove("voigt_to_elastic_tensor: major symmetry (M symmetric)", pc, z3.And(*major))
    # contractions
    cl = []
    for i in range(3):
        for j in range(3):
            d = R(0)
            v = R(0)
            for k in range(3):
                d = d + ten[i, j, k, k]
                v = v + ten[i, k, j, k]
            cl.append(eq(dil[i, j], d))
            cl.append(eq(dev[i, j], v))
    sess.prove("voigt_decompose = (C_ijkk, C_ikjk) of the 4th-order tensor", pc, z3.And(*cl))
    sess.prove("elastic_tensor_to_voigt(voigt_to_elastic_tensor(M)) = M (M symmetric)", pc, all_eq(back, M))
    sample(sess, obligation="round trip 6x6 -> 3x3x3x3 -> 6x6", cell="back[0,5]", term=str(back[0, 5]))

    # converse: T with the elastic symmetries -> voigt -> T
    def fn2():
        Tt = np.empty((3, 3, 3, 3), dtype=object)
        for idx in it.product(range(3), repeat=4):
            Tt[idx] = real("t" + "".join(map(str, idx)))
        Tt = Tt.view(SArr)
        return Tt, T.voigt_to_elastic_tensor(T.elastic_tensor_to_voigt(Tt))

    with np_installed(T):
        p2 = single_path(fn2)
    Tt, Tb = p2.value
    syms = []
    for a, b, c, d in it.product(range(3), repeat=4):
        syms += [eq(Tt[a, b, c, d], Tt[b, a, c, d]), eq(Tt[a, b, c, d], Tt[a, b, d, c]), eq(Tt[a, b, c, d], Tt[c, d, a, b])]
    sess.prove("voigt_to_elastic_tensor(elastic_tensor_to_voigt(T)) = T (T with elastic symmetries)", p2.pc + syms, all_eq(Tb, Tt))


def zb_ne(a, b):
    return z3.Not(eq(a, b))


def t_vector_maps(sess):
    T = pydrex_modules()["tensors"]
    sess.encode(T.voigt_matrix_to_vector, T.voigt_vector_to_matrix)
    sess.assume_env("np.sqrt(2) is the positive real s with s*s = 2 (the exact algebraic number, not its float rounding)")

    def fn():
        M = _sym66("m", symmetric=True)
        v = T.voigt_matrix_to_vector(M)
        back = T.voigt_vector_to_matrix(v)
        ten = T.voigt_to_elastic_tensor(M)
        x = quat.symvec("x", 21)
        xm = T.voigt_vector_to_matrix(x)
        xb = T.voigt_matrix_to_vector(xm)
        return M, v, back, ten, x, xm, xb

    with np_installed(T):
        p = single_path(fn)
    M, v, back, ten, x, xm, xb = p.value
    sess.satisfiable("vector_maps:reach", p.pc)
    sess.prove("voigt_vector_to_matrix(voigt_matrix_to_vector(M)) = M for symmetric M", p.pc, all_eq(back, M))
    sess.prove("voigt_matrix_to_vector(voigt_vector_to_matrix(x)) = x for all 21-vectors", p.pc, all_eq(xb, x))
    sess.prove("voigt_vector_to_matrix(x) is symmetric", p.pc, all_eq(xm, xm.transpose()))
    n2 = R(0)
    for c in v.flat:
        n2 = n2 + c * c
    f2 = R(0)
    for c in ten.flat:
        f2 = f2 + c * c
    sess.prove("|vector|^2 = sum_pqrs T_pqrs^2 (isometry)", p.pc, eq(n2, f2))
    sample(sess, obligation="isometry", lhs=str(n2)[:200])


def _sym_elastic(prefix="c"):
    """General symbolic elastic tensor via its 21 independent components."""
    M = _sym66(prefix, symmetric=True)
    Tt = np.empty((3, 3, 3, 3), dtype=object)
    for a, b, c, d in it.product(range(3), repeat=4):
        Tt[a, b, c, d] = M[_voigt_index(a, b), _voigt_index(c, d)]
    return Tt.view(SArr)


def _mode_rotate(Tt, Rm):
    """Oracle: four successive mode products (independent of the 8-fold loop in the source)."""
    out = np.asarray(Tt, dtype=object)
    for mode in range(4):
        out = np.moveaxis(np.tensordot(np.asarray(Rm, dtype=object), out, axes=([1], [mode])), 0, mode)
    return out


def t_rotate_law(sess):
    T = pydrex_modules()["tensors"]
    sess.encode(T.rotate)
    sess.bounds["rotate"] = "general 21-parameter elastic tensor, rotation R(q) with q on the unit 3-sphere (onto SO(3))"

    def fn():
        q, unit = quat.quat("q")
        Rm = quat.rotmat(q)
        Tt = _sym_elastic()
        return q, unit, Rm, Tt, T.rotate(Tt, Rm), T.rotate(Tt, sarr(np.eye(3)))

    with np_installed(T):
        p = single_path(fn)
    q, unit, Rm, Tt, rot, rot_id = p.value
    oracle = _mode_rotate(Tt, Rm)
    sess.satisfiable("rotate:reach", p.pc + [unit])
    # the transformation law holds as a polynomial identity (no need for |q| = 1)
    idx = list(it.product(range(3), repeat=4))
    for chunk in range(0, 81, 27):
        cl = [eq(rot[i], oracle[i]) for i in idx[chunk : chunk + 27]]
        sess.prove(f"rotate(T,R)[ijkl] = R_ia R_jb R_kc R_ld T_abcd, tuples {chunk}..{chunk+26}", p.pc, z3.And(*cl))
    sess.prove("rotate(T, identity) = T", p.pc, all_eq(rot_id, Tt))
    sample(sess, obligation="rotation law", cell="rot[0,1,2,0]", nonidentical_cells=int(ident_mismatches(rot, oracle)))


def t_rotate_norm(sess):
    T = pydrex_modules()["tensors"]
    sess.encode(T.rotate)

    def fn():
        q, unit = quat.quat("q")
        Rm = quat.rotmat(q)
        Tt = _sym_elastic()
        return q, Tt, T.rotate(Tt, Rm)

    with np_installed(T):
        p = single_path(fn)
    q, Tt, rot = p.value
    rules = poly.Rules().unit_quat(q)
    a = R(0)
    for c in Tt.flat:
        a = a + c * c
    b = R(0)
    for c in rot.flat:
        b = b + c * c
    sess.prove_nf("Frobenius norm preserved by rotate (|q|=1)", p.pc, rules, [a], [b], tags={"optional": True})


def t_rotate_group(sess):
    """rotate(rotate(T,R1),R2) = rotate(T, R2 R1): decided for the generators of SO(3)
    (rotations about each coordinate axis, rational parametrisation) composed with a general R(q)."""
    T = pydrex_modules()["tensors"]
    sess.encode(T.rotate)
    sess.bounds["rotate_group"] = "R1 = general R(q); R2 = rotation about a coordinate axis (c,s with c^2+s^2=1); 3 axes"
    for axis in range(3):

        def fn():
            q, unit = quat.quat("q")
            R1 = quat.rotmat(q)
            c, s = real("c"), real("s")
            R2 = sarr(np.eye(3))
            i, j = [(1, 2), (2, 0), (0, 1)][axis]
            R2[i, i] = c
            R2[j, j] = c
            R2[i, j] = -s
            R2[j, i] = s
            Tt = _sym_elastic()
            lhs = T.rotate(T.rotate(Tt, R1), R2)
            rhs = T.rotate(Tt, R2 @ R1)
            return q, c, s, lhs, rhs

        with np_installed(T):
            p = single_path(fn)
        q, c, s, lhs, rhs = p.value
        rules = poly.Rules().unit_quat(q).circle(c, s)
        sess.prove_nf(f"group action rotate(rotate(T,R1),R2) = rotate(T,R2 R1), axis {axis}", p.pc, rules, lhs, rhs, tags={"optional": True})


def t_projectors(sess):
    T = pydrex_modules()["tensors"]
    projs = {"mono": T.mono_project, "ortho": T.ortho_project, "tetr": T.tetr_project, "hex": T.hex_project}
    sess.encode(*projs.values())

    def fn():
        x = quat.symvec("x", 21)
        y = quat.symvec("y", 21)
        out = {}
        for k, P in projs.items():
            Px = P(x)
            out[k] = (Px, P(Px), P(y))
        nest = {
            "hex_in_tetr": (T.hex_project(T.tetr_project(x)), T.tetr_project(T.hex_project(x))),
            "tetr_in_ortho": (T.tetr_project(T.ortho_project(x)), T.ortho_project(T.tetr_project(x))),
            "ortho_in_mono": (T.ortho_project(T.mono_project(x)), T.mono_project(T.ortho_project(x))),
            "hex_in_ortho": (T.hex_project(T.ortho_project(x)), T.ortho_project(T.hex_project(x))),
        }
        return x, y, out, nest

    with np_installed(T):
        p = single_path(fn)
    x, y, out, nest = p.value
    sess.satisfiable("projectors:reach", p.pc)
    for k, (Px, PPx, Py) in out.items():
        sess.prove(f"{k}_project idempotent", p.pc, all_eq(PPx, Px))
        lhs = R(0)
        rhs = R(0)
        for a, b, c, d in zip(Px.flat, y.flat, x.flat, Py.flat):
            lhs = lhs + a * b
            rhs = rhs + c * d
        sess.prove(f"{k}_project self-adjoint (<Px,y> = <x,Py>), hence an orthogonal projection", p.pc, eq(lhs, rhs))
    small = {"hex_in_tetr": "hex", "tetr_in_ortho": "tetr", "ortho_in_mono": "ortho", "hex_in_ortho": "hex"}
    for k, (a, b) in nest.items():
        Ps = out[small[k]][0]
        sess.prove(f"nesting {k}: P_small(P_big x) = P_small x", p.pc, all_eq(a, Ps))
        sess.prove(f"nesting {k}: P_big(P_small x) = P_small x", p.pc, all_eq(b, Ps))
    sample(sess, obligation="hex projector idempotent", cell0=str(out["hex"][1][0])[:160])


def t_invariants(sess):
    T = pydrex_modules()["tensors"]
    sess.encode(T.invariants_second_order)
    sess.assume_env("np.linalg.det of a 3x3 = cofactor expansion; np.trace = sum of the diagonal")

    def fn():
        A = quat.symmat("a")
        return A, T.invariants_second_order(A)

    with np_installed(T):
        p = single_path(fn)
    A, (I1, I2, I3) = p.value
    x = real("x")
    # Leibniz expansion of det(A - xI), independent of the cofactor routine
    B = [[A[i, j] - (x if i == j else 0) for j in range(3)] for i in range(3)]
    det = R(0)
    for perm in it.permutations(range(3)):
        sgn = 1
        for i in range(3):
            for j in range(i + 1, 3):
                if perm[i] > perm[j]:
                    sgn = -sgn
        term = R(sgn)
        for i in range(3):
            term = term * B[i][perm[i]]
        det = det + term
    sess.satisfiable("invariants:reach", p.pc)
    sess.prove("det(A - xI) = -x^3 + I1 x^2 - I2 x + I3 identically in x (all real 3x3 A)", p.pc, eq(det, -(x * x * x) + I1 * x * x - I2 * x + I3))
    sample(sess, obligation="characteristic polynomial", I2=str(I2)[:200])


def _svd_stub(which):
    """SVD contract: every real 3x3 matrix is U diag(S) Vh with U, Vh orthogonal, S >= 0 descending.
    Orthogonal = rotation R(q) times an optional reflection diag(1,1,+-1)."""

    def mk(prefix):
        q, unit = quat.quat(prefix)
        Rm = quat.rotmat(q)
        sg = real(prefix + "_sg")
        sym.ctx().assume(unit)
        sym.ctx().assume(z3.Or(sg.z3() == 1, sg.z3() == -1))
        sym.ctx().notes.setdefault("rules", poly.Rules()).unit_quat(q).sign(sg)
        D = sarr(np.eye(3))
        D[2, 2] = sg
        return Rm @ D

    U = mk("u")
    Vh = mk("v")
    S = quat.symvec("s", 3)
    sym.ctx().assume(z3.And((S[0] >= S[1]).z3(), (S[1] >= S[2]).z3(), (S[2] >= 0).z3()))
    return U, S, Vh


def _polar(sess, left):
    T = pydrex_modules()["tensors"]
    sess.encode(T.polar_decompose)
    sess.assume_env(
        "np.linalg.svd contract: returns (U, S, Vh) with U, Vh orthogonal (rotation x optional reflection), "
        "S >= 0 descending, U diag(S) Vh = M; every real 3x3 matrix has such a factorisation"
    )
    holder = {}

    def svd(M):
        return holder["usv"]

    def fn():
        U, S, Vh = _svd_stub("m")
        holder["usv"] = (U, S, Vh)
        M = U @ (np.diag(S.view(np.ndarray)).astype(object).view(SArr) @ Vh)
        if not left:
            sym.ctx().assume((S[2] > 0).z3())  # det M != 0
        Rm, St = T.polar_decompose(M, left=left)
        return M, Rm, St

    from ..sarr import NpProxy

    proxy = NpProxy(linalg={"svd": svd})
    with np_installed(T, proxy=proxy):
        p = single_path(fn)
    return p, p.notes["rules"]


def t_polar_left(sess):
    p, rules = _polar(sess, True)
    M, Rm, V = p.value
    sess.satisfiable("polar_left:reach", p.pc)
    I = sarr(np.eye(3))
    sess.prove_nf("polar(left): R R^T = I", p.pc, rules, Rm @ Rm.transpose(), I)
    sess.prove_nf("polar(left): V symmetric", p.pc, rules, V, V.transpose())
    sess.prove_nf("polar(left): V R = M (documented order M = V P)", p.pc, rules, V @ Rm, M)
    sample(sess, obligation="polar left product", cell=str((V @ Rm)[0, 0])[:160])


def t_polar_right(sess):
    p, rules = _polar(sess, False)
    M, Rm, U = p.value
    sess.satisfiable("polar_right:reach", p.pc)
    sess.prove_nf("polar(right): U symmetric", p.pc, rules, U, U.transpose(), tags={"optional": True})
    sess.prove_nf("polar(right): R U = M (det M != 0)", p.pc, rules, Rm @ U, M, tags={"optional": True})
    sess.prove_nf("polar(right): R R^T = I", p.pc, rules, Rm @ Rm.transpose(), sarr(np.eye(3)), tags={"optional": True})


def t_polar_psd(sess):
    p, rules = _polar(sess, True)
    M, Rm, V = p.value
    x = [real(f"x{i}") for i in range(3)]
    qf = R(0)
    for i in range(3):
        for j in range(3):
            qf = qf + x[i] * V[i, j] * x[j]
    sess.prove("polar(left): x^T V x >= 0 (positive semi-definite stretch)", p.pc, (qf >= 0).z3(), tags={"optional": True})


def default_cex(name):
    """Generic public-API replay for verdicts that carry no more specific counterexample."""
    return {"replay": "vf.props.replays:c11_tensors", "case": {}, "cls": {"kind": "tensor representations inconsistent"}}
