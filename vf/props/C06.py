"""C06 -- the returned deformation gradient is the solution of dF/dt = L(t, x(t)).F.

Decided: the F block of the real right-hand side is L(t, x(t)) @ F (operand order, row-major
packing, evaluated at the solver's t and at the pathline position for that t) for an arbitrary
state; it contains nothing of the mineral (phase, fabric, regime, grain count, texture, parameters,
phase fractions); the initial vector starts with the supplied F; the returned matrix is the F block
of the solver's final state, untouched by the grain-boundary-sliding write-back; the bulk update
feeds the same starting F to every mineral and returns the last mineral's result.
"""

from __future__ import annotations

import numpy as np
import z3

from .. import quat, stubs, sym
from ..sarr import SArr, patched, sarr
from ..sym import R, real, rmax
from . import kernel
from . import mineral_h as mh
from .C05 import uf_field
from .common import all_eq, eq, pydrex_modules, sample, only_path

TIMEOUT_MS = {"quick": 60000, "thorough": 300000}


def tasks(tier):
    cfgs = [
        dict(n_grains=2, phase="olivine", fabric="olivine_A", regime="matrix_dislocation"),
        dict(n_grains=3, phase="enstatite", fabric="enstatite_AB", regime="frictional_yielding"),
        dict(n_grains=2, phase="olivine", fabric="olivine_C", regime="matrix_diffusion"),
        dict(n_grains=2, phase="olivine", fabric="olivine_E", regime="max_viscosity"),
    ]
    if tier == "thorough":
        cfgs += [dict(n_grains=4, phase="olivine", fabric=fb, regime=rg) for fb in ("olivine_B", "olivine_D") for rg in ("min_viscosity", "matrix_dislocation")]
    t = [("t_fblock", {"cfg": c, "steps": 2}) for c in cfgs] + [("t_update_all", {})]
    t += [("t_fblock", {"cfg": c, "steps": 1, "earlier": True}) for c in (cfgs[:2] if tier == "quick" else cfgs)]
    if tier == "thorough":
        t += [("t_fblock", {"cfg": c, "steps": s}) for c in cfgs[:4] for s in (1, 3)]
    return t


def t_fblock(sess, cfg, steps, earlier=False):
    mods = pydrex_modules()
    minerals = mods["minerals"]
    P, F, Rg = kernel.enums()
    N = cfg["n_grains"]
    sess.encode(minerals.Mineral.update_orientations, mods["utils"].extract_vars)
    sess.bounds["fblock"] = "arbitrary state y, arbitrary L(t, x) and x(t) (uninterpreted fields), arbitrary valid texture; configurations listed in task names"
    sess.outside_claim("accuracy of LSODA itself (the 5e-3 + ... bound); det F = exp(int tr L) and split-interval equality follow from the ODE identity for the exact flow only")
    log, dlog = [], []
    plan = stubs.LsodaPlan(steps=steps, n_grains=N)
    Lf = uf_field("Lf", (3, 3))
    Xf = uf_field("Xf", (3,))
    tag = f"F block[{cfg['fabric']}/{cfg['regime']}/N={N}{', after an earlier update of the same mineral' if earlier else ''}]"

    def fn():
        log.clear()
        dlog.clear()
        m, snaps = mh.make_mineral(N, getattr(P, cfg["phase"]), getattr(F, cfg["fabric"]), getattr(Rg, cfg["regime"]))
        mh.assume_valid(snaps)
        phi = real("phi")
        sym.ctx().assume(z3.And((phi > 0).z3(), (phi <= 1).z3()))
        other = P.enstatite if cfg["phase"] == "olivine" else P.olivine
        params = mh.sym_params(N, phase_assemblage=(other, getattr(P, cfg["phase"])), phase_fractions=(1 - phi, phi))
        Fin = quat.symmat("F")
        t0, t1 = real("t0"), real("t1")
        if earlier:
            # the same mineral object has already been updated once, over another interval, in another flow, from another
            # F: whatever that update leaves behind on the object (a remembered velocity gradient, strain-rate scale,
            # "steady flow" flag ...) must not reach this one
            Lg, Xg = uf_field("Lg", (3, 3)), uf_field("Xg", (3,))
            m.update_orientations(params, quat.symmat("Fe"), lambda t, x: Lg(t, x), (real("te0"), real("te1"), lambda t: Xg(t, None)))
        Fout = m.update_orientations(params, Fin, lambda t, x: Lf(t, x), (t0, t1, lambda t: Xf(t, None)))
        s = log[-1]
        y = quat.symvec("yy", 10 * N + 9)
        tot = R(0)
        for i in range(9 + 9 * N, 9 + 10 * N):
            tot = tot + rmax(y[i], 0)
        sym.ctx().assume((tot > 0).z3())
        t = real("t")
        rhs = s.fun(t, y.copy())
        Lt = Lf(t, Xf(t, None))
        # a second evaluation at another time (the solver evaluates the right-hand side many times per update):
        # the velocity gradient must be looked up again at that time, wherever the particle is
        tb_ = real("t_b")
        y2 = quat.symvec("yz", 10 * N + 9)
        tot2 = R(0)
        for i in range(9 + 9 * N, 9 + 10 * N):
            tot2 = tot2 + rmax(y2[i], 0)
        sym.ctx().assume((tot2 > 0).z3())
        rhs2 = s.fun(tb_, y2.copy())
        Lt2 = Lf(tb_, Xf(tb_, None))
        return dict(Fin=Fin, Fout=Fout, s=s, y=y, rhs=rhs, Lt=Lt, t0=t0, t1=t1, y2=y2, rhs2=rhs2, Lt2=Lt2)

    with mh.env(plan, log, derivatives=mh.deriv_stub_factory(dlog, N)):
        paths, info = sym.explore(fn, max_paths=64)
    sess.paths[tag] = {"paths": len(paths)}
    if info["truncated"]:
        sess.truncated = True
    reached = False
    for k, p in enumerate(paths):
        pt = f"{tag} path {k}"
        if p.exc is not None:
            sess.prove(f"{pt}: raises {type(p.exc).__name__}: {str(p.exc)[:60]}", p.pc, z3.BoolVal(False))
            continue
        v = p.value
        if not reached:
            reached = sess.satisfiable(f"{tag}: reach", p.pc).verdict == "sat"
        Fy = v["y"][:9].reshape(3, 3)
        want = (v["Lt"] @ Fy).reshape(-1)
        sess.prove(f"{pt}: F block of the rhs = L(t, x(t)) @ F, row-major, operand order L.F", p.pc, all_eq(v["rhs"][:9], want))
        want2 = (v["Lt2"] @ v["y2"][:9].reshape(3, 3)).reshape(-1)
        sess.prove(f"{pt}: a later evaluation at another time t' uses L(t', x(t')) (no state carried between evaluations)", p.pc, all_eq(v["rhs2"][:9], want2))
        # the block mentions only L and F: no symbol of texture, parameters, phase fraction
        import re

        names = set()
        for c in v["rhs"][:9]:
            names |= set(re.findall(r"[A-Za-z_!][A-Za-z_0-9!]*", str(R(c).v)))
        foreign = sorted(n for n in names if not (n.startswith("Lf") or n.startswith("yy") or n.startswith("Xf")))
        sess.prove(f"{pt}: F block mentions only L(t, x(t)) and y[:9] (no texture / parameter / phase-fraction symbol: {foreign})", p.pc, z3.BoolVal(not foreign))
        s = v["s"]
        sess.prove(f"{pt}: initial state starts with the supplied F (row-major)", p.pc, all_eq(np.asarray(s.y0_arg, dtype=object)[:9], v["Fin"].reshape(-1)))
        sess.prove(f"{pt}: integration runs from the requested start to the requested end", p.pc, z3.And(eq(s.t0, v["t0"]), eq(s.t_bound, v["t1"])))
        last = [real(f"y!{s.id}!{steps}!{i}") for i in range(9)]
        sess.prove(f"{pt}: returned F = F block of the solver's final state, untouched by the GBS write-back", p.pc, all_eq(v["Fout"].reshape(-1), last))
        sess.prove(f"{pt}: returned F has shape (3, 3)", p.pc, z3.BoolVal(v["Fout"].shape == (3, 3)))
    if not reached:
        sess.reach.append(type("Q", (), {"name": f"{tag}: reach", "verdict": "unknown", "secs": 0.0})())
    sample(sess, obligation="dF/dt = L.F", config=tag)


def t_update_all(sess):
    mods = pydrex_modules()
    minerals = mods["minerals"]
    P, F, Rg = kernel.enums()
    sess.encode(minerals.update_all)
    calls = []

    class FakeMineral:
        def __init__(self, name):
            self.name = name

        def update_orientations(self, **kw):
            calls.append((self.name, kw))
            return quat.symmat(f"Fout_{self.name}_")

    def fn():
        calls.clear()
        ms = [FakeMineral("a"), FakeMineral("b"), FakeMineral("c")]
        Fin = quat.symmat("F")
        params = {"marker": 1}
        gv = lambda t, x: None  # noqa: E731
        path = (real("t0"), real("t1"), lambda t: None)
        out = minerals.update_all(ms, params, Fin, gv, path, get_regime=None, atol=7)
        return Fin, params, gv, path, out, list(calls)

    paths, info = sym.explore(fn)
    p = only_path(sess, paths)
    Fin, params, gv, path, out, cs = p.value
    sess.satisfiable("update_all: reach", p.pc)
    sess.prove("update_all: every mineral is updated exactly once, in list order", p.pc, z3.BoolVal([c[0] for c in cs] == ["a", "b", "c"]))
    same = all(c[1]["deformation_gradient"] is Fin and c[1]["params"] is params and c[1]["get_velocity_gradient"] is gv
               and c[1]["pathline"] is path and c[1].get("atol") == 7 for c in cs)
    sess.prove("update_all: every mineral receives the same starting F, params, velocity-gradient callable, pathline and solver options", p.pc, z3.BoolVal(same))
    sess.prove("update_all: the last mineral's deformation gradient is returned", p.pc, all_eq(out, quat.symmat("Fout_c_")))


def default_cex(name):
    """Generic public-API replay for verdicts that carry no more specific counterexample."""
    return {"replay": "vf.props.replays:c06_defgrad", "case": {}, "cls": {"kind": "returned deformation gradient does not solve dF/dt = L F"}}
