"""C12 -- elastic symmetry decomposition is correct and frame-independent (decidable core).

Decided on the real `elasticity_components` executed up to its first eigen-decomposition (where the
harness reads the function's locals and cuts the path): K and G are the isotropic (Voigt) invariants,
the isotropic vector is the orthogonal projection of the stiffness vector onto the isotropic subspace,
percent_anisotropy = 100 |x - x_iso| / |x| in [0, 100]; K, G (hence |x_iso|) are unchanged when the
tensor is expressed in a rotated frame. For tensors that are orthorhombic in the working frame and
every eigenvector pairing LAPACK may return (signed permutations of the axes), the full real function
is executed: monoclinic and triclinic parts vanish, the squared percentages add up to the squared
anisotropy, the hexagonal axis is a coordinate axis.
"""

from __future__ import annotations

import itertools as it
from fractions import Fraction
import sys as _sys

import numpy as np
import z3

from .. import poly, quat, stubs, sym
from ..sarr import NpProxy, SArr, patched, sarr
from ..sym import R, real
from .C10 import _sym66, _to_tensor, _to_voigt
from .C11 import _mode_rotate
from .C13 import sym_sqrt_apps
from .common import all_eq, eq, np_installed, pydrex_modules, sample, only_path

TIMEOUT_MS = {"quick": 90000, "thorough": 300000}


def tasks(tier):
    t = [("t_isotropic_part", {})] + [("t_frame_invariance", {"axis": k}) for k in range(3)]
    if tier == "thorough":
        # general rotations: exact rational R(q) (the fully symbolic R(q) version, axis=None, did not finish in 85 min
        # of polynomial normalisation and is not scheduled)
        t += [("t_frame_invariance", {"axis": f"rational:{k}"}) for k in range(len(RATIONAL_QUATS))]
    perms = list(it.permutations(range(3)))
    pairs = [(perms[0], perms[0]), (perms[3], perms[1]), (perms[5], perms[2])] if tier == "quick" else [(a, b) for a in perms for b in perms]
    t += [("t_orthorhombic", {"perm_d": list(a), "perm_v": list(b), "signs": [1, -1, 1]}) for a, b in pairs]
    t += [("t_orthorhombic", {"perm_d": [0, 1, 2], "perm_v": [0, 1, 2], "signs": [1, 1, 1], "series": 2})]
    # rotated frames: exact rational rotations (rational unit quaternions), eigenvector order/sign as LAPACK may return
    rot = [(0, perms[0], perms[0]), (3, perms[1], perms[1]), (4, perms[2], perms[4])] if tier == "quick" else [
        (qi, a, b) for qi in range(len(RATIONAL_QUATS)) for a, b in ((perms[0], perms[0]), (perms[1], perms[1]), (perms[2], perms[4]), (perms[5], perms[3]))]
    t += [("t_orthorhombic_rotated", {"qi": qi, "perm0": list(a), "perm1": list(b), "signs": [1, -1, -1]}) for qi, a, b in rot]
    return t


# rational unit quaternions (w, x, y, z): rotations about x, y, z and general axes; all entries of R(q) are rationals
RATIONAL_QUATS = [(Fraction(3, 5), Fraction(4, 5), 0, 0), (Fraction(3, 5), 0, Fraction(4, 5), 0), (Fraction(12, 13), 0, 0, Fraction(5, 13)),
                  (Fraction(1, 5), Fraction(2, 5), Fraction(2, 5), Fraction(4, 5)), (Fraction(2, 7), Fraction(3, 7), Fraction(6, 7), 0),
                  (Fraction(1, 9), Fraction(4, 9), 0, Fraction(8, 9)), (Fraction(2, 11), Fraction(-6, 11), Fraction(9, 11), 0)]


class CutLa:
    """scipy.linalg stand-in that stops `elasticity_components` at its first eigh call and hands the
    caller's locals to the harness."""

    def __init__(self):
        self.locals = None

    def norm(self, x, axis=None, **kw):
        from ..sarr import _f_norm

        return _f_norm(x, axis=axis)

    def eigh(self, *a, **k):
        f = _sys._getframe(1)
        self.locals = dict(f.f_locals)
        raise sym.PathAbort("cut at the first eigen-decomposition")


def _iso_basis():
    s2 = sym.ctx().ufs.sqrt(R(2))
    e1 = [R(1)] * 3 + [s2] * 3 + [R(0)] * 15
    e2 = [R(4) / 3] * 3 + [-(s2 * 2) / 3] * 3 + [R(2)] * 3 + [R(0)] * 12
    return s2, e1, e2


def _run_prefix(C):
    diag = pydrex_modules()["diagnostics"]
    la = CutLa()
    with patched((diag, "la", la)):
        try:
            diag.elasticity_components(sarr(np.array([C.view(np.ndarray)], dtype=object)))
        except sym.PathAbort:
            pass
    return la.locals


def t_isotropic_part(sess):
    mods = pydrex_modules()
    diag, tensors = mods["diagnostics"], mods["tensors"]
    sess.encode(diag.elasticity_components, tensors.voigt_decompose, tensors.voigt_matrix_to_vector, tensors.upper_tri_to_symmetric)
    sess.bounds["isotropic_part"] = "every symmetric 6x6 stiffness matrix (21 free parameters; only the upper triangle is read)"

    def fn():
        C = _sym66("c")
        loc = _run_prefix(C)
        s2, e1, e2 = _iso_basis()
        return C, loc, s2, e1, e2

    with np_installed(diag, tensors):
        paths, _ = sym.explore(fn)
    p = only_path(sess, paths)
    C, loc, s2, e1, e2 = p.value
    K, G = loc["K"], loc["G"]
    x, xi = loc["voigt_vector"], loc["isotropic_vector"]
    pa = loc["out"]["percent_anisotropy"][0]
    T = _to_tensor(C)
    sess.satisfiable("isotropic part: reach", p.pc)
    c_iijj = sum((T[i, i, j, j] for i in range(3) for j in range(3)), R(0))
    c_ijij = sum((T[i, j, i, j] for i in range(3) for j in range(3)), R(0))
    sess.prove("K = C_iijj / 9 and G = (C_ijij - 3K)/10 (isotropic Voigt invariants)", p.pc, z3.And(eq(K * 9, c_iijj), eq(G * 10, c_ijij - 3 * K)))
    dil = np.array([[sum((T[i, j, k, k] for k in range(3)), R(0)) for j in range(3)] for i in range(3)], dtype=object)
    dev = np.array([[sum((T[i, k, j, k] for k in range(3)), R(0)) for j in range(3)] for i in range(3)], dtype=object)
    sess.prove("the two contractions whose eigenvectors define the symmetry axes are d_ij = C_ijkk and v_ij = C_ikjk of the full tensor", p.pc,
               z3.And(all_eq(loc["stiffness_dilat"], dil), all_eq(loc["stiffness_deviat"], dev)))
    rules = poly.Rules()
    for _, (arg, res) in sym_sqrt_apps(p):
        rules.square(R(res), R(arg))
    xiso = [K * a + G * b for a, b in zip(e1, e2)]
    sess.prove_nf("isotropic vector = K e_K + G e_G (K + 4G/3, sqrt2 (K - 2G/3), 2G pattern)", p.pc, rules, list(xi), xiso)
    dot = lambda u, v: sum((a * b for a, b in zip(u, v)), R(0))  # noqa: E731
    res = [a - b for a, b in zip(x, xi)]
    sess.prove_nf("x - x_iso is orthogonal to the isotropic subspace (x_iso is the orthogonal projection of x)", p.pc, rules, [dot(res, e1), dot(res, e2)], [R(0), R(0)])
    sess.prove_nf("|x|^2 = |x_iso|^2 + |x - x_iso|^2, hence |x - x_iso| <= |x| and the percentage lies in [0, 100]", p.pc, rules,
                  [dot(list(x), list(x))], [dot(list(xi), list(xi)) + dot(res, res)])
    # the reported percentage is 100 * norm(x - x_iso) / norm(x)
    apps = sym_sqrt_apps(p)
    norm0 = poly.Normaliser()
    nres = [r for _, (a, r) in apps if not poly.diff_numerator(norm0, R(a), dot(res, res))]
    nx = [r for _, (a, r) in apps if not poly.diff_numerator(norm0, R(a), dot(list(x), list(x)))]
    ok = len(nres) >= 1 and len(nx) >= 1
    sess.prove("percent_anisotropy is computed from the norms of (x - x_iso) and x", p.pc, z3.BoolVal(ok))
    if ok:
        sess.prove_nf("percent_anisotropy * |x| = 100 |x - x_iso|", p.pc, rules, [pa * R(nx[0])], [100 * R(nres[0])])
    sample(sess, obligation="isotropic part", K=str(K)[:200])


def t_frame_invariance(sess, axis=None):
    """K and G are unchanged when the tensor is expressed in a rotated frame. Quick: rotations about each
    coordinate axis (generators of SO(3); invariance under generators composes to the whole group);
    thorough: additionally a general R(q)."""
    mods = pydrex_modules()
    diag, tensors = mods["diagnostics"], mods["tensors"]
    sess.bounds["frame_invariance"] = "general 21-parameter tensor; rotation about a coordinate axis (c, s with c^2 + s^2 = 1) for each axis; general R(q) in the thorough tier"

    def fn():
        C = _sym66("c")
        rules = poly.Rules()
        if axis is None:
            q, unit = quat.quat("q")
            sym.ctx().assume(unit)
            Q = quat.rotmat(q)
            rules.unit_quat(q)
        elif isinstance(axis, str):
            Q = quat.rotmat(tuple(R(x) for x in RATIONAL_QUATS[int(axis.split(":")[1])]))
        else:
            c, s = real("c"), real("s")
            sym.ctx().assume((c * c + s * s == 1).z3())
            Q = sarr(np.eye(3))
            i, j = [(1, 2), (2, 0), (0, 1)][axis]
            Q[i, i] = c
            Q[j, j] = c
            Q[i, j] = -s
            Q[j, i] = s
            rules.circle(c, s)
        Crot = sarr(_to_voigt(_mode_rotate(_to_tensor(C), np.asarray(Q, dtype=object))))
        a = _run_prefix(C)
        b = _run_prefix(Crot)
        return rules, a, b

    with np_installed(diag, tensors):
        paths, _ = sym.explore(fn)
    p = only_path(sess, paths)
    rules, a, b = p.value
    tag = f"frame invariance[{'general R(q)' if axis is None else axis if isinstance(axis, str) else 'axis %d' % axis}]"
    sess.satisfiable(f"{tag}: reach", p.pc)
    sess.prove_nf(f"{tag}: K and G of the tensor expressed in the rotated frame equal those of the original (so |x_iso| is frame independent)", p.pc, rules,
                  [b["K"], b["G"]], [a["K"], a["G"]], tags={"optional": True} if axis is None else None)
    sess.outside_claim("|x| itself under rotation: norm preservation of rotate() is decided in C11 (thorough); frame-independence of the class percentages and of the axis for general (non-orthorhombic) tensors depends on LAPACK's eigenvector selection")


def t_orthorhombic(sess, perm_d, perm_v, signs, series=1):
    """Full real function on a tensor that is orthorhombic in the working frame; LAPACK may return the
    principal axes in any order and sign (enumerated: signed permutation matrices)."""
    mods = pydrex_modules()
    diag, tensors = mods["diagnostics"], mods["tensors"]
    sess.bounds["orthorhombic"] = "9 free orthorhombic parameters (positive norm), eigenvector matrices = signed permutations of the axes for the dilatational / deviatoric contractions"
    sess.assume_env("la.eigh on a diagonal matrix with distinct entries returns a signed permutation of the coordinate axes (order and signs arbitrary: enumerated)")

    def vmat(perm, sg):
        V = np.zeros((3, 3))
        for col, ax in enumerate(perm):
            V[ax, col] = sg[col]
        return V

    class PermLa:
        def __init__(self):
            self.n = 0

        def norm(self, x, axis=None, **kw):
            from ..sarr import _f_norm, has_sym

            if not has_sym(x):
                import scipy.linalg as la

                return la.norm(x, axis=axis, **kw)
            return _f_norm(x, axis=axis)

        def eigh(self, m, **kw):
            self.n += 1
            V = vmat(perm_d, signs) if self.n % 2 == 1 else vmat(perm_v, [1, 1, 1])
            return sarr(np.zeros(3)), V

    def fn():
        la.n = 0
        Cs = []
        for k in range(series):
            if series > 1 and k == 0:
                # first matrix of the series: the built-in (axis-aligned orthorhombic) olivine stiffness, concrete
                from .C10 import _real_stiffness

                Cs.append(sarr(_real_stiffness().olivine).view(np.ndarray))
                continue
            C = sarr(np.zeros((6, 6)))
            names = {(0, 0): "c11", (1, 1): "c22", (2, 2): "c33", (0, 1): "c12", (0, 2): "c13", (1, 2): "c23", (3, 3): "c44", (4, 4): "c55", (5, 5): "c66"}
            for (i, j), n in names.items():
                C[i, j] = real(f"{n}_{k}" if series > 1 else n)
                C[j, i] = C[i, j]
            sym.ctx().assume((C[0, 0] > 0).z3())
            Cs.append(C.view(np.ndarray))
        out = diag.elasticity_components(sarr(np.array(Cs, dtype=object)))
        return Cs, out

    la = PermLa()
    with np_installed(diag, tensors), patched((diag, "la", la)):
        paths, info = sym.explore(fn, catch=(Exception,), max_paths=64)
    tag = f"orthorhombic[d-order {perm_d}, v-order {perm_v}]"
    sess.paths[tag] = {"paths": len(paths)}
    reached = False
    for k, p in enumerate(paths):
        pt = f"{tag} path {k}"
        if p.exc is not None:
            sess.prove(f"{pt}: raises {type(p.exc).__name__}: {str(p.exc)[:80]}", p.pc, z3.BoolVal(False))
            continue
        C, out = p.value
        if not reached:
            reached = sess.satisfiable(f"{pt}: reach", p.pc).verdict == "sat"
        rules = poly.Rules()
        for _, (arg, res) in sym_sqrt_apps(p):
            rules.square(R(res), R(arg))
        for mi in range(series):
            pm = f"{tag} path {k}" + (f" matrix {mi}" if series > 1 else "")
            g = lambda key, mi=mi: out[key][mi]  # noqa: E731
            if g("percent_monoclinic") is None:
                # no permutation improved on the initial distance: the percentages were never written
                sess.prove(f"{pm}: some axis permutation is accepted (outputs are written; not writing them requires a vanishing hexagonal projection, impossible for positive-definite tensors)",
                           p.pc, z3.BoolVal(False), tags={"optional": True}, timeout_ms=10000)
                continue
            sess.prove(f"{pm}: monoclinic and triclinic parts vanish", p.pc, z3.And(eq(g("percent_monoclinic"), 0), eq(g("percent_triclinic"), 0)))
            sq = lambda v: R(v) * R(v)  # noqa: E731
            parts = sq(g("percent_hexagonal")) + sq(g("percent_tetragonal")) + sq(g("percent_orthorhombic")) + sq(g("percent_monoclinic")) + sq(g("percent_triclinic"))
            sess.prove_nf(f"{pm}: squared class percentages add up to the squared percent anisotropy", p.pc, rules, [parts], [sq(g("percent_anisotropy"))])
            ax = [R(v) if v is not None else None for v in out["hexagonal_axis"][mi]]
            conc = all(a is not None and a.concrete for a in ax)
            sess.prove(f"{pm}: hexagonal axis is a unit vector along one of the principal (coordinate) axes", p.pc,
                       z3.BoolVal(conc and sorted(abs(float(a.v)) for a in ax) == [0.0, 0.0, 1.0]))
    if not reached:
        sess.reach.append(type("Q", (), {"name": f"{tag}: reach", "verdict": "unknown", "secs": 0.0})())
    sample(sess, obligation="orthorhombic decomposition", config=tag, paths=len(paths))


def _exact_smallest_angle(vector, axis, plane=None):
    """diagnostics.smallest_angle by its documented contract on exact unit vectors: 0 for parallel / antiparallel,
    90 for orthogonal, strictly between otherwise (degrees; only compared, never used as a number)."""
    import math

    d = sum((R(a) * R(b) for a, b in zip(np.asarray(vector, dtype=object).flat, np.asarray(axis, dtype=object).flat)), R(0))
    if not d.concrete or plane is not None:
        raise sym.Unsupported("smallest_angle stand-in needs concrete unit vectors")
    v = abs(Fraction(d.v))
    if v >= 1:
        return R(0)
    if v == 0:
        return R(90)
    return R(Fraction(math.degrees(math.acos(float(v)))).limit_denominator(10**9))


def t_orthorhombic_rotated(sess, qi, perm0, perm1, signs):
    """C0 orthorhombic in the working frame (9 free parameters) and C1 = C0 expressed in the frame rotated by an
    exact rational rotation Q, decomposed by ONE call of the real function; LAPACK's freedom (order and sign of the
    principal axes: one ascending-eigenvalue order for the dilatational and one for the deviatoric contraction -- the
    same in both frames because the eigenvalues are frame invariant -- and free signs in every call) is a parameter
    of the task.  Claims: every reported number of
    C1 equals that of C0, the monoclinic and triclinic parts of C1 vanish, the squared class percentages add up to
    the squared anisotropy, and the hexagonal axis of C1 is +-Q applied to the axis found for C0."""
    mods = pydrex_modules()
    diag, tensors = mods["diagnostics"], mods["tensors"]
    sess.encode(diag.elasticity_components, tensors.rotate, tensors.voigt_to_elastic_tensor, tensors.elastic_tensor_to_voigt)
    q = RATIONAL_QUATS[qi]
    Q = np.array([[R(x).v for x in row] for row in np.asarray(quat.rotmat(tuple(R(x) for x in q)), dtype=object)], dtype=object)
    sess.bounds["orthorhombic rotated"] = f"9 free orthorhombic parameters; frame rotation = R(q), q = {tuple(str(x) for x in q)} (one of {len(RATIONAL_QUATS)} exact rational rotations); eigenvector order {perm0} (dilatational) / {perm1} (deviatoric), signs {signs} and their reversed negation in the rotated frame"
    sess.assume_env("la.eigh of a contraction of an orthorhombic tensor with distinct principal values returns its principal axes (the columns of Q) in ascending-eigenvalue order (any order, but the same in both frames) with arbitrary signs")
    sess.assume_env("diagnostics.smallest_angle by its documented contract on unit vectors (0 parallel, 90 orthogonal); its arccos/rad2deg arithmetic is not re-executed here")

    def vmat(perm, sg, rot):
        V = np.empty((3, 3), dtype=object)
        for col, ax in enumerate(perm):
            for i in range(3):
                V[i, col] = R((Q[i, ax] if rot else Fraction(int(i == ax))) * sg[col])
        return sarr(V)

    class RotLa:
        n = 0

        def norm(self, x, axis=None, **kw):
            from ..sarr import _f_norm

            return _f_norm(x, axis=axis)

        def eigh(self, m, **kw):
            # ascending-eigenvalue order is fixed by the (frame-invariant) eigenvalues: the same order in both frames,
            # one order for the dilatational and one for the deviatoric contraction; the signs are free in every call
            self.n += 1
            second = self.n > 2
            first_of_pair = self.n % 2 == 1
            perm = perm0 if first_of_pair else perm1
            sg = signs if first_of_pair else [1, 1, 1]
            if second:
                sg = [-x for x in sg[::-1]]
            return sarr(np.zeros(3)), vmat(perm, sg, second)

    la = RotLa()

    def fn():
        la.n = 0
        sym.ctx().notes["canon_sqrt"] = True
        C = sarr(np.zeros((6, 6)))
        names = {(0, 0): "c11", (1, 1): "c22", (2, 2): "c33", (0, 1): "c12", (0, 2): "c13", (1, 2): "c23", (3, 3): "c44", (4, 4): "c55", (5, 5): "c66"}
        for (i, j), n in names.items():
            C[i, j] = real(n)
            C[j, i] = C[i, j]
        sym.ctx().assume((C[0, 0] > 0).z3())
        T0 = tensors.voigt_to_elastic_tensor(C)
        Qs = sarr(np.array([[R(x) for x in row] for row in Q], dtype=object))
        C1 = tensors.elastic_tensor_to_voigt(tensors.rotate(T0, Qs))
        out = diag.elasticity_components(sarr(np.array([C.view(np.ndarray), np.asarray(C1, dtype=object)], dtype=object)))
        return C, C1, out

    with np_installed(diag, tensors), patched((diag, "la", la), (diag, "smallest_angle", _exact_smallest_angle)):
        paths, info = sym.explore(fn, catch=(Exception,), max_paths=64)
    tag = f"orthorhombic rotated[q{qi}, orders {perm0}/{perm1}]"
    sess.paths[tag] = {"paths": len(paths)}
    if info["truncated"]:
        sess.truncated = True
    reached = False
    keys = ("bulk_modulus", "shear_modulus", "percent_anisotropy", "percent_hexagonal", "percent_tetragonal", "percent_orthorhombic", "percent_monoclinic", "percent_triclinic")
    if len(paths) > 12:
        # the unchanged code has 8 paths (the two frames take the same decisions); many more means the frames disagree:
        # decide the first dozen with short budgets instead of running every claim on every path into its time-out
        sess.truncated = True
    short = dict(timeout_ms=20000)
    for k, p in enumerate(paths[:12]):
        pt = f"{tag} path {k}"
        if p.exc is not None:
            sess.prove(f"{pt}: raises {type(p.exc).__name__}: {str(p.exc)[:80]}", p.pc, z3.BoolVal(False))
            continue
        C, C1, out = p.value
        if not reached:
            reached = sess.satisfiable(f"{pt}: reach", p.pc).verdict == "sat"
        if out["percent_monoclinic"][0] is None or out["percent_monoclinic"][1] is None:
            sess.prove(f"{pt}: some axis permutation is accepted in both frames", p.pc, z3.BoolVal(False), tags={"optional": True}, timeout_ms=10000)
            continue
        rules = poly.Rules()
        for _, (arg, res) in sym_sqrt_apps(p):
            rules.square(R(res), R(arg))
        sess.prove(f"{pt}: every reported modulus and percentage is the same in the rotated frame", p.pc,
                   z3.And(*[eq(out[key][0], out[key][1]) for key in keys]), **short)
        sess.prove(f"{pt}: rotated frame: monoclinic and triclinic parts vanish", p.pc, z3.And(eq(out["percent_monoclinic"][1], 0), eq(out["percent_triclinic"][1], 0)), **short)
        sq = lambda v: R(v) * R(v)  # noqa: E731
        parts = sum((sq(out[key][1]) for key in keys[3:]), R(0))
        sess.prove_nf(f"{pt}: rotated frame: squared class percentages add up to the squared percent anisotropy", p.pc, rules, [parts], [sq(out["percent_anisotropy"][1])], **short)
        a0 = [R(v) for v in out["hexagonal_axis"][0]]
        a1 = [R(v) for v in out["hexagonal_axis"][1]]
        conc = all(a.concrete for a in a0 + a1)
        img = [sum((Q[i, j] * Fraction(a0[j].v) for j in range(3)), Fraction(0)) for i in range(3)] if conc else None
        good = conc and (all(Fraction(a1[i].v) == img[i] for i in range(3)) or all(Fraction(a1[i].v) == -img[i] for i in range(3)))
        sess.prove(f"{pt}: hexagonal axis of the rotated tensor is +-Q applied to the axis found in the unrotated frame (unit vector)", p.pc, z3.BoolVal(bool(good)))
    if not reached:
        sess.reach.append(type("Q", (), {"name": f"{tag}: reach", "verdict": "unknown", "secs": 0.0})())
    sample(sess, obligation="orthorhombic decomposition in a rotated frame", config=tag, paths=len(paths))


def default_cex(name):
    return {"replay": "vf.props.C12:replay_rotated", "case": {}, "cls": {"kind": "elastic decomposition wrong or frame dependent"}}


def replay_rotated(case):
    """Public API on the built-in tensors in rotated frames: K, G, anisotropy against numpy; orthorhombic identities."""
    import numpy as np
    import pydrex
    from pydrex import minerals, tensors
    from scipy.spatial.transform import Rotation

    problems = []
    st = minerals.StiffnessTensors()
    for nm in ("olivine", "enstatite"):
        C0 = getattr(st, nm)
        ref = pydrex.elasticity_components(np.array([C0]))
        T0 = tensors.voigt_to_elastic_tensor(C0)
        for Q in Rotation.random(4, random_state=5).as_matrix():
            C = tensors.elastic_tensor_to_voigt(tensors.rotate(T0, Q))
            out = pydrex.elasticity_components(np.array([C]))
            for key in ("bulk_modulus", "shear_modulus", "percent_anisotropy"):
                if not np.isclose(out[key][0], ref[key][0], rtol=1e-9):
                    problems.append(f"{nm}: {key} changes in a rotated frame")
            if out["percent_monoclinic"][0] > 1e-6 or out["percent_triclinic"][0] > 1e-6:
                problems.append(f"{nm}: rotated orthorhombic tensor reports monoclinic {out['percent_monoclinic'][0]:.3f}% / triclinic {out['percent_triclinic'][0]:.3f}%")
            parts = sum(out[k][0] ** 2 for k in ("percent_hexagonal", "percent_tetragonal", "percent_orthorhombic", "percent_monoclinic", "percent_triclinic"))
            if not np.isclose(parts, out["percent_anisotropy"][0] ** 2, rtol=1e-6):
                problems.append(f"{nm}: squared class percentages do not add up to the squared anisotropy in a rotated frame")
            ax, ax0 = out["hexagonal_axis"][0], ref["hexagonal_axis"][0]
            if abs(abs(ax @ (Q @ ax0)) - 1) > 1e-6:
                problems.append(f"{nm}: hexagonal axis does not co-rotate")
    # arbitrary positive-definite orthorhombic tensors: the principal values of the two contractions d_ij = C_ijkk and
    # v_ij = C_ikjk may sort in any of the 6 relative orders (identity, three swaps, two 3-cycles); two tensors per class,
    # each in its own frame and in two rotated frames
    rng = np.random.default_rng(31)
    classes = {}
    while len(classes) < 6 or min(len(v) for v in classes.values()) < 2:
        d_, o_, s_ = rng.uniform(150, 300, 3), rng.uniform(20, 90, 3), rng.uniform(30, 110, 3)
        C0 = np.zeros((6, 6))
        C0[:3, :3] = [[d_[0], o_[0], o_[1]], [o_[0], d_[1], o_[2]], [o_[1], o_[2], d_[2]]]
        C0[3:, 3:] = np.diag(s_)
        dil = C0[:3, :3].sum(axis=1)
        dev = np.array([d_[0] + s_[2] + s_[1], s_[2] + d_[1] + s_[0], s_[1] + s_[0] + d_[2]])
        if np.linalg.eigvalsh(C0).min() < 5 or np.diff(np.sort(dil)).min() < 8 or np.diff(np.sort(dev)).min() < 8:
            continue
        rel = tuple(int(x) for x in np.argsort(np.argsort(dil))[np.argsort(dev)])
        if len(classes.setdefault(rel, [])) < 2:
            classes[rel].append(C0)
    for rel, Cs in sorted(classes.items()):
        for C0 in Cs:
            T0 = tensors.voigt_to_elastic_tensor(C0)
            ref = pydrex.elasticity_components(np.array([C0]))
            for Q in [np.eye(3)] + list(Rotation.random(2, random_state=int(C0[0, 0])).as_matrix()):
                C = tensors.elastic_tensor_to_voigt(tensors.rotate(T0, Q))
                out = pydrex.elasticity_components(np.array([C]))
                tag = f"orthorhombic tensor (relative order of the contraction eigenvalues {rel})"
                pct = {k: float(out[k][0]) for k in ("percent_hexagonal", "percent_tetragonal", "percent_orthorhombic", "percent_monoclinic", "percent_triclinic", "percent_anisotropy")}
                if not all(np.isfinite(v) and -1e-9 <= v <= 100 + 1e-9 for v in pct.values()):
                    problems.append(f"{tag}: percentages outside [0, 100]")
                    continue
                if pct["percent_monoclinic"] > 1e-6 or pct["percent_triclinic"] > 1e-6:
                    problems.append(f"{tag}: monoclinic / triclinic parts do not vanish")
                if not np.isclose(sum(v ** 2 for k, v in pct.items() if k != "percent_anisotropy"), pct["percent_anisotropy"] ** 2, rtol=1e-6):
                    problems.append(f"{tag}: squared class percentages do not add up to the squared anisotropy")
                if any(not np.isclose(out[k][0], ref[k][0], rtol=1e-6, atol=1e-8) for k in pct):
                    problems.append(f"{tag}: percentages change in a rotated frame")
                ax, ax0 = out["hexagonal_axis"][0], ref["hexagonal_axis"][0]
                if abs(np.linalg.norm(ax) - 1) > 1e-9 or abs(abs(ax @ (Q @ ax0)) - 1) > 1e-6:
                    problems.append(f"{tag}: hexagonal axis is not the unit image of the axis found in the unrotated frame")
    # a series of matrices in one call must give the same result as decomposing each matrix alone
    rots = Rotation.random(3, random_state=9).as_matrix()
    series = [tensors.elastic_tensor_to_voigt(tensors.rotate(tensors.voigt_to_elastic_tensor(getattr(st, nm)), Q)) for nm, Q in
              (("olivine", np.eye(3)), ("enstatite", rots[0]), ("olivine", rots[1]), ("enstatite", np.eye(3)), ("olivine", rots[2]))]
    for order in (series, series[::-1]):
        batch = pydrex.elasticity_components(np.array(order))
        for i, C in enumerate(order):
            alone = pydrex.elasticity_components(np.array([C]))
            for key in batch:
                if not np.allclose(batch[key][i], alone[key][0], rtol=1e-9, atol=1e-9, equal_nan=False):
                    problems.append(f"series call: entry {i} '{key}' differs from the single-matrix result")
    return {"reproduced": bool(problems), "detail": sorted(set(problems))[:5] or "decomposition correct and frame independent on the replay inputs"}
