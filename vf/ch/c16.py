"""CrossHair contracts over the real SCSV writer / reader code (pydrex.io).

The real `save_scsv` is executed with `open`, `resolve_path`, `csv.writer`, `np.isnan` and the logger
replaced by small pure-Python stand-ins (CrossHair realises its symbolic values at C boundaries), and
the real `_parse_scsv_cell` reads the written text back. Assumed: csv returns each field as written
(its contract for cells without delimiter / quote / line break), float(repr(x)) == x, the reader sees
the schema given to the writer.
"""

from __future__ import annotations

import pydrex.io as pio
from pydrex import exceptions as _err


class _Rec:
    def __init__(self):
        self.rows = []
        self.text = []

    def write(self, s):
        self.text.append(s)

    def __enter__(self):
        return self

    def __exit__(self, *a):
        return False


class _Writer:
    def __init__(self, stream, **kw):
        self.stream = stream

    def writerow(self, row):
        self.stream.rows.append(list(row))


class _Csv:
    writer = _Writer


class _Np:
    nan = float("nan")

    @staticmethod
    def isnan(x):
        return x != x


class _Path:
    def unlink(self, missing_ok=False):
        pass


class _Log:
    @staticmethod
    def info(*a, **k):
        pass

    @staticmethod
    def error(*a, **k):
        pass


def _written_cell(kind: str, cell, missing: str, fill):
    """What the real save_scsv writes for a one-column, one-row table (None if it refuses)."""
    rec = _Rec()
    saved = (pio.open if hasattr(pio, "open") else None, pio.resolve_path, pio.csv, pio.np, pio._log)
    real_header = pio.write_scsv_header

    def header_validation_only(stream, schema, comments=None):
        # The header TEXT is not the subject of the cell-level contracts (it is decided by header_scalars_are_single_quoted
        # and the z3 YAML-scalar task); rendering it calls str.replace on the symbolic marker, which CrossHair 0.0.110 cannot
        # execute (CrossHairInternal in SymbolicBoundedIntTuple). The schema validation the real function performs first is kept.
        if not pio._validate_scsv_schema(schema):
            raise pio._err.SCSVError("refusing to write invalid schema to stream.")
        stream.write("---")

    pio.write_scsv_header = header_validation_only
    pio.open = lambda *a, **k: rec
    pio.resolve_path = lambda p, refdir=None: _Path()
    pio.csv = _Csv
    pio.np = _Np
    pio._log = _Log
    try:
        schema = {"delimiter": ",", "missing": missing, "fields": [{"name": "a", "type": kind, "fill": fill}]}
        pio.save_scsv("f.scsv", schema, [[cell]])
    finally:
        if saved[0] is None:
            del pio.open
        else:
            pio.open = saved[0]
        pio.resolve_path, pio.csv, pio.np, pio._log = saved[1:]
        pio.write_scsv_header = real_header
    return rec.rows[1][0]


def string_cell_roundtrip(cell: str, missing: str, fill: str) -> bool:
    """
    pre: len(cell) <= 3 and len(missing) <= 2 and len(fill) <= 3
    pre: cell == cell.strip() and chr(10) not in cell and chr(13) not in cell
    pre: cell != missing and "," not in missing and missing != ","
    post: _
    raises: SCSVError
    """
    w = _written_cell("string", cell, missing, fill)
    back = pio._parse_scsv_cell(str, str(w), missingstr=missing, fillval=fill)
    return back == cell


_SPECIAL_FILLS = ["NaN", "nan", "inf", "None", "True", "1e3", "null", "~"]


def string_cell_special_fill(cell_is_fill: bool, cell: str, missing: str, fill_sel: int) -> bool:
    """
    pre: len(cell) <= 2 and len(missing) <= 1 and 0 <= fill_sel < 8
    pre: cell == cell.strip() and chr(10) not in cell and chr(13) not in cell
    pre: cell != missing and "," not in missing
    post: _
    raises: SCSVError
    """
    fill = _SPECIAL_FILLS[fill_sel]
    if missing == fill:
        return True
    c = fill if cell_is_fill else cell
    w = _written_cell("string", c, missing, fill)
    back = pio._parse_scsv_cell(str, str(w), missingstr=missing, fillval=fill)
    return back == c


_INTS = [0, 7, -3, 10, -1, 9007199254740993, -12345678901234567890]  # incl. integers no float64 represents


def int_cell_roundtrip(cell_sel: int, fill_sel: int, missing: str) -> bool:
    """
    pre: 0 <= cell_sel < 7 and 0 <= fill_sel < 7
    pre: len(missing) <= 2 and "," not in missing
    pre: str(_INTS[cell_sel]) != missing
    post: _
    raises: SCSVError
    """
    cell, fill = _INTS[cell_sel], _INTS[fill_sel]
    w = _written_cell("integer", cell, missing, fill)
    back = pio._parse_scsv_cell(int, str(w), missingstr=missing, fillval=fill)
    return back == cell


def bool_cell_roundtrip(cell: bool, missing: str) -> bool:
    """
    pre: len(missing) <= 2 and "," not in missing
    pre: str(cell) != missing
    post: _
    raises: SCSVError
    """
    w = _written_cell("boolean", cell, missing, False)
    back = pio._parse_scsv_cell(bool, str(w), missingstr=missing, fillval=False)
    return back == cell


_FLOATS = [float("nan"), float("inf"), float("-inf"), 1.5, -0.0, 1e300]


def float_cell_roundtrip(cell_sel: int, fill_sel: int, missing: str) -> bool:
    """
    pre: 0 <= cell_sel < 6 and 0 <= fill_sel < 6
    pre: len(missing) <= 2 and "," not in missing
    pre: str(_FLOATS[cell_sel]) != missing
    post: _
    raises: SCSVError
    """
    cell, fill = _FLOATS[cell_sel], _FLOATS[fill_sel]
    w = _written_cell("float", cell, missing, fill)
    back = pio._parse_scsv_cell(float, str(w), missingstr=missing, fillval=fill)
    if cell != cell:
        return back != back
    return back == cell


_NAMES = ["a", "_x", "x1", "1a", "a b", "", "a-b", "class"]


def _schema(delimiter: str, missing: str, name_sel: int, kind: int, has_fill: bool, drop: int, n_fields: int):
    name = _NAMES[name_sel]
    kinds = ["string", "integer", "float", "boolean", "complex", "date"]
    field = {"name": name, "type": kinds[kind % 6]}
    if has_fill:
        field["fill"] = "0"
    schema = {"delimiter": delimiter, "missing": missing, "fields": [field] * n_fields}
    if drop == 1:
        del schema["delimiter"]
    elif drop == 2:
        del schema["missing"]
    elif drop == 3:
        del schema["fields"]
    return schema, kinds[kind % 6]


def schema_validation(delimiter: str, missing: str, name_sel: int, kind: int, has_fill: bool, drop: int, n_fields: int) -> bool:
    """
    pre: len(delimiter) <= 1 and len(missing) <= 2 and 0 <= name_sel < 8
    pre: 0 <= kind < 6 and 0 <= drop < 4 and 0 <= n_fields <= 2
    post: _
    """
    name = _NAMES[name_sel]
    schema, k = _schema(delimiter, missing, name_sel, kind, has_fill, drop, n_fields)
    saved = pio._log
    pio._log = _Log
    try:
        got = pio._validate_scsv_schema(schema)
    finally:
        pio._log = saved
    want = (
        drop == 0
        and n_fields > 0
        and delimiter != missing
        and delimiter not in missing
        and name.isidentifier()
        and k != "date"
        and (k in ("string", "boolean") or has_fill)
    )
    return bool(got) == bool(want)


def invalid_schema_refused(delimiter: str, missing: str, name_sel: int, kind: int, has_fill: bool, drop: int, n_fields: int) -> bool:
    """
    pre: len(delimiter) <= 1 and len(missing) <= 2 and 0 <= name_sel < 8
    pre: 0 <= kind < 6 and 0 <= drop < 4 and 0 <= n_fields <= 2
    post: _
    """
    schema, k = _schema(delimiter, missing, name_sel, kind, has_fill, drop, n_fields)
    saved = pio._log
    pio._log = _Log
    try:
        valid = pio._validate_scsv_schema(schema)
        rec = _Rec()
        try:
            pio.write_scsv_header(rec, schema)
            wrote = True
        except _err.SCSVError:
            wrote = False
    finally:
        pio._log = saved
    return wrote == bool(valid)


def unequal_columns_refused(n1: int, n2: int) -> bool:
    """
    pre: 0 <= n1 <= 3 and 0 <= n2 <= 3
    post: _
    """
    rec = _Rec()
    saved = (pio.resolve_path, pio.csv, pio.np, pio._log)
    had_open = hasattr(pio, "open")
    pio.open = lambda *a, **k: rec
    pio.resolve_path = lambda p, refdir=None: _Path()
    pio.csv = _Csv
    pio.np = _Np
    pio._log = _Log
    try:
        schema = {"delimiter": ",", "missing": "-", "fields": [{"name": "a"}, {"name": "b"}]}
        try:
            pio.save_scsv("f.scsv", schema, [["x"] * n1, ["y"] * n2])
            ok = True
        except _err.SCSVError:
            ok = False
    finally:
        if not had_open:
            del pio.open
        pio.resolve_path, pio.csv, pio.np, pio._log = saved
    return ok == (n1 == n2)


def unparsable_cell_refused(cell: str) -> bool:
    """
    pre: len(cell) <= 2
    post: _
    """
    try:
        int(cell.strip())
        parses = True
    except ValueError:
        parses = False
    try:
        _written_cell("integer", cell, "-", 0)
        ok = True
    except _err.SCSVError:
        ok = False
    return ok == (parses or cell.strip() == "-")


_FOREIGN_CELLS = [True, False, 3, -1, 2.0, 0.25, float("nan"), 1 + 2j, "7", "x", None]
_FOREIGN_KINDS = [("integer", int), ("float", float), ("complex", complex)]


def foreign_typed_cell_refused(kind_sel: int, cell_sel: int) -> bool:
    """
    pre: 0 <= kind_sel < 3 and 0 <= cell_sel < 11
    post: _
    """
    # A cell whose PYTHON type is not the declared one (a bool or a float in an integer column, a string, None ...):
    # it is written as str(cell), so it is acceptable exactly when that text parses as the declared type;
    # in particular a bool is not an integer cell ("True" does not parse) although isinstance(True, int) holds.
    kind, ctor = _FOREIGN_KINDS[kind_sel]
    cell = _FOREIGN_CELLS[cell_sel]
    try:
        ctor(str(cell))
        parses = True
    except ValueError:
        parses = False
    try:
        _written_cell(kind, cell, "-", ctor(0))
        ok = True
    except _err.SCSVError:
        ok = False
    return ok == parses


_COMPLEX = [complex(float("nan"), 0.0), 1.5 + 2j, 0j, complex(float("inf"), -1.0), -2.5j]


def complex_cell_roundtrip(cell_sel: int, fill_sel: int, missing: str) -> bool:
    """
    pre: 0 <= cell_sel < 5 and 0 <= fill_sel < 5
    pre: len(missing) <= 2 and "," not in missing
    pre: str(_COMPLEX[cell_sel]) != missing
    post: _
    raises: SCSVError
    """
    cell, fill = _COMPLEX[cell_sel], _COMPLEX[fill_sel]
    w = _written_cell("complex", cell, missing, fill)
    back = pio._parse_scsv_cell(complex, str(w), missingstr=missing, fillval=fill)
    if cell != cell:
        return back != back
    return back == cell


def terse_schema_is_valid(delimiter: str, missing: str, kind_sel: int, fill: str, with_unit: bool) -> bool:
    """
    pre: len(delimiter) == 1 and 1 <= len(missing) <= 2 and len(fill) <= 2
    pre: delimiter not in "dm:()" and "m" not in missing and ":" not in missing and "(" not in missing and ")" not in missing
    pre: delimiter not in missing and ":" not in fill and "(" not in fill and ")" not in fill
    pre: 0 <= kind_sel < 5
    post: _
    raises: SCSVError
    """
    k = "sifbc"[kind_sel]
    spec = k + ":" + fill + (":percent" if with_unit else "")
    terse = "d" + delimiter + "m" + missing + ":colA(" + spec + ")colB()"
    schema = pio.parse_scsv_schema(terse)
    saved = pio._log
    pio._log = _Log
    try:
        ok = pio._validate_scsv_schema(schema)
    finally:
        pio._log = saved
    f0 = schema["fields"][0]
    return bool(ok) and schema["delimiter"] == delimiter and schema["missing"] == missing and f0["name"] == "colA" \
        and f0["fill"] == fill and f0["type"] == pio.SCSV_TERSEMAP[k] and schema["fields"][1] == {"name": "colB", "type": "string", "fill": ""}


# ---------------------------------------------------------------------------------------
# rows through the real reader loop of read_scsv

_DELIMS = [",", chr(9), ";", "|"]


class _CsvText:
    """csv by its contract for fields without delimiter / quote / line break: the writer joins the fields with the
    delimiter (a lone empty field is written as a pair of quotes), the reader splits each line on the delimiter,
    drops blanks that follow a delimiter when skipinitialspace is set, and yields no fields for an empty line."""

    writer = _Writer

    @staticmethod
    def reader(lines, delimiter=",", skipinitialspace=False, **kw):
        # character loop on purpose: CrossHair 0.0.110 mis-models `line[:-1]` / `endswith` on symbolic concatenations
        out = []
        for line in lines:
            fields, cur, n = [], "", 0
            for ch in line:
                if ch == chr(10):
                    break
                n += 1
                if ch == " " and skipinitialspace and cur == "":
                    continue  # as in _csv.c: a blank at the start of a field is dropped BEFORE the delimiter test
                if ch == delimiter:
                    fields.append(cur)
                    cur = ""
                else:
                    cur += ch
            if n == 0:
                out.append([])
                continue
            fields.append(cur)
            if fields == [chr(34) * 2]:
                fields = [""]
            out.append(fields)
        return iter(out)


class _Yaml:
    schema = None

    @staticmethod
    def safe_load(stream):
        return {"schema": _Yaml.schema}


class _Lines:
    def __init__(self, lines):
        self.lines = lines

    def __iter__(self):
        return iter(self.lines)

    def __enter__(self):
        return self

    def __exit__(self, *a):
        return False


def _roundtrip_rows(delimiter: str, missing: str, fills, rows):
    """Real save_scsv (recording writer) -> text lines by csv's contract -> real read_scsv (its own line loop,
    header check and cell parser; YAML loader replaced: the reader sees the schema given to the writer)."""
    rec = _Rec()
    saved = (pio.__dict__.get("open"), pio.resolve_path, pio.csv, pio.np, pio._log, pio.yaml)
    schema = {"delimiter": delimiter, "missing": missing, "fields": [{"name": "c" + str(i), "type": "string", "fill": f} for i, f in enumerate(fills)]}
    state = {"mode": "w"}

    def opener(*a, **k):
        return rec if state["mode"] == "w" else _Lines(state["lines"])

    pio.open = opener
    pio.resolve_path = lambda p_, refdir=None: _Path()
    pio.csv = _CsvText
    pio.np = _Np
    pio._log = _Log
    pio.yaml = _Yaml
    _Yaml.schema = schema
    try:
        pio.save_scsv("f.scsv", schema, [list(col) for col in zip(*rows)])
        lines = ["---" + chr(10), "schema: as given to the writer" + chr(10), "---" + chr(10)]
        for row in rec.rows:
            lines.append((chr(34) * 2 if (len(row) == 1 and row[0] == "") else delimiter.join(str(x) for x in row)) + chr(10))
        state["mode"], state["lines"] = "r", lines
        back = pio.read_scsv("f.scsv")
    finally:
        if saved[0] is None:
            del pio.open
        else:
            pio.open = saved[0]
        pio.resolve_path, pio.csv, pio.np, pio._log, pio.yaml = saved[1:]
    return [tuple(col) for col in back]


def _rows_contract(c1: str, c2: str, missing: str, d: str) -> bool:
    fills = ["x", ""]
    rows = [[c1, c2], [fills[0], fills[1]]]
    back = _roundtrip_rows(d, missing, fills, rows)
    return back == [tuple(r[0] for r in rows), tuple(r[1] for r in rows)]


def rows_through_reader_comma(c1: str, c2: str, missing: str) -> bool:
    """
    pre: len(c1) <= 1 and len(c2) <= 1 and len(missing) <= 1
    pre: c1 == c1.strip() and c2 == c2.strip() and missing == missing.strip()
    pre: all(ch not in c1 + c2 + missing for ch in (chr(10), chr(13), chr(34), ",", chr(9), ";", "|"))
    pre: c1 != missing and c2 != missing
    post: _
    raises: SCSVError
    """
    return _rows_contract(c1, c2, missing, ",")


def rows_through_reader_tab(c1: str, c2: str, missing: str) -> bool:
    """
    pre: len(c1) <= 1 and len(c2) <= 1 and len(missing) <= 1
    pre: c1 == c1.strip() and c2 == c2.strip() and missing == missing.strip()
    pre: all(ch not in c1 + c2 + missing for ch in (chr(10), chr(13), chr(34), ",", chr(9), ";", "|"))
    pre: c1 != missing and c2 != missing
    post: _
    raises: SCSVError
    """
    return _rows_contract(c1, c2, missing, chr(9))


def rows_through_reader_semicolon(c1: str, c2: str, missing: str) -> bool:
    """
    pre: len(c1) <= 1 and len(c2) <= 1 and len(missing) <= 1
    pre: c1 == c1.strip() and c2 == c2.strip() and missing == missing.strip()
    pre: all(ch not in c1 + c2 + missing for ch in (chr(10), chr(13), chr(34), ",", chr(9), ";", "|"))
    pre: c1 != missing and c2 != missing
    post: _
    raises: SCSVError
    """
    return _rows_contract(c1, c2, missing, ";")


def single_column_rows_through_reader(c1: str, c2: str, missing: str) -> bool:
    """
    pre: len(c1) <= 3 and len(c2) <= 1 and len(missing) <= 1
    pre: c1 == c1.strip() and c2 == c2.strip() and missing == missing.strip()
    pre: all(ch not in c1 + c2 + missing for ch in (chr(10), chr(13), chr(34), ","))
    pre: c1 != missing and c2 != missing
    post: _
    raises: SCSVError
    """
    fills = ["x"]
    rows = [[c2], [c1], [fills[0]], [c2]]
    back = _roundtrip_rows(",", missing, fills, rows)
    return back == [tuple(r[0] for r in rows)]


def rows_through_reader_space(c1: str, c2: str, missing: str) -> bool:
    """
    pre: len(c1) <= 1 and len(c2) <= 1 and len(missing) <= 1
    pre: c1 == c1.strip() and c2 == c2.strip() and missing == missing.strip()
    pre: all(ch not in c1 + c2 + missing for ch in (chr(10), chr(13), chr(34), ",", chr(9), ";", "|", " "))
    pre: c1 != missing and c2 != missing
    post: _
    raises: SCSVError
    """
    return _rows_contract(c1, c2, missing, " ")


def header_scalars_are_single_quoted(delimiter: str, missing: str) -> bool:
    """
    pre: len(delimiter) == 1 and len(missing) <= 2
    pre: delimiter not in missing and chr(10) not in delimiter + missing and chr(13) not in delimiter + missing
    post: _
    raises: SCSVError
    """
    # YAML single-quoted style: the content is literal except that a quote is written twice
    rec = _Rec()
    schema = {"delimiter": delimiter, "missing": missing, "fields": [{"name": "a", "type": "integer", "fill": "7"}]}
    saved = pio._log
    pio._log = _Log
    try:
        pio.write_scsv_header(rec, schema)
    finally:
        pio._log = saved
    text = "".join(rec.text)
    q = chr(39)
    want_d = "  delimiter: " + q + delimiter.replace(q, q + q) + q
    want_m = "  missing: " + q + missing.replace(q, q + q) + q
    lines = text.split(chr(10))
    return want_d in lines and want_m in lines
