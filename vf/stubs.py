"""Environment stubs (scipy / LAPACK / RNG) constrained only by their documented contracts.

Every stub here is part of the claim of the checks that use it and is listed in their evidence.
"""

from __future__ import annotations

import numpy as np
import z3

from . import sym
from .sarr import SArr, has_sym, sarr
from .sym import R, real, rmax

# ---------------------------------------------------------------------------------------
# scipy.linalg.eigvalsh / np.linalg.eigvalsh consumed as spectral radius


def specrad_of(matrix):
    """UF specrad(lower triangle of the symmetric argument) with its contract."""
    m = np.asarray(matrix, dtype=object)
    args = [R(m[i, j]) for i in range(3) for j in range(i + 1)]  # LAPACK reads the lower triangle
    c = sym.ctx()
    if all(a.concrete for a in args) and all(a.v == 0 for a in args):
        return R(0), args
    r, new = c.ufs._fresh("specrad", tuple(a.z3() for a in args))
    if new:
        c.axiom(r >= 0)
        c.axiom((r == 0) == z3.And(*[a.z3() == 0 for a in args]))
    c.notes.setdefault("specrad_apps", []).append((args, R(r)))
    return R(r), args


def eigvalsh_stub(matrix, *a, **k):
    """Three eigenvalues that are arbitrary except that max |e_i| = specrad(matrix)."""
    if not has_sym(matrix):
        import scipy.linalg as la

        return la.eigvalsh(matrix, *a, **k)
    rho, _ = specrad_of(matrix)
    c = sym.ctx()
    n = len(c.notes.setdefault("eig_calls", []))
    es = [real(f"eig!{n}!{i}") for i in range(3)]
    c.notes["eig_calls"].append(es)
    absd = [abs(e) for e in es]
    c.axiom(z3.And(*[(x <= rho).z3() for x in absd]))
    c.axiom(z3.Or(*[(x == rho).z3() for x in absd]))
    c.axiom(z3.And((es[0] <= es[1]).z3(), (es[1] <= es[2]).z3()))
    out = sarr(np.array(es, dtype=object)).view(EigVals)
    out._rho = rho
    return out


class EigVals(SArr):
    """Eigenvalue array whose `np.abs(.).max()` is, by the contract above, exactly specrad."""

    _rho = None

    def __array_finalize__(self, obj):
        self._rho = getattr(obj, "_rho", None)

    def _abs(self):
        out = np.absolute(self.view(SArr)).view(AbsEigVals)
        out._rho = self._rho
        return out


class AbsEigVals(SArr):
    _rho = None

    def __array_finalize__(self, obj):
        self._rho = getattr(obj, "_rho", None)

    def max(self, axis=None, **kw):
        if self._rho is not None and self.shape == (3,):
            return self._rho
        return SArr.max(self.view(SArr), axis=axis)


class LaStub:
    """Stands in for `scipy.linalg` (module attribute `la`) in the module under analysis."""

    def __init__(self, **over):
        self._over = over

    def __getattr__(self, name):
        if name in self._over:
            return self._over[name]
        if name == "eigvalsh":
            return eigvalsh_stub
        import scipy.linalg as la

        real_f = getattr(la, name)

        def f(*a, **k):
            if has_sym(a):
                raise sym.Unsupported(f"scipy.linalg.{name} on symbolic input (no stub)")
            return real_f(*a, **k)

        return f


def polar_stub(matrix, left=True):
    """tensors.polar_decompose as seen by its caller: a deterministic but otherwise arbitrary
    function of the matrix (two 3x3 results whose cells are uninterpreted functions of the 9 entries)."""
    c = sym.ctx()
    args = [R(x) for x in np.asarray(matrix, dtype=object).flat]
    if all(a.concrete and a.v == 0 for a in args):
        # svd of the zero matrix: singular values 0, so the stretch factor is 0 (numpy returns U = Vh = I)
        return sarr(np.eye(3)), sarr(np.zeros((3, 3)))
    outs = []
    for name in ("polR", "polU"):
        o = np.empty((3, 3), dtype=object)
        for ij in np.ndindex(3, 3):
            o[ij] = c.ufs.generic(f"{name}{ij[0]}{ij[1]}_{int(bool(left))}", *args)
        outs.append(o.view(SArr))
    c.notes.setdefault("polar_calls", []).append((matrix, outs))
    return tuple(outs)


# ---------------------------------------------------------------------------------------
# scipy.integrate.LSODA


class LsodaPlan:
    """How the nondeterministic solver behaves in this run."""

    def __init__(self, steps=1, fail_at=None, raise_at=None, eval_rhs_each_step=False, n_grains=None, step_hook=None):
        self.steps, self.fail_at, self.raise_at = steps, fail_at, raise_at
        self.eval_rhs_each_step = eval_rhs_each_step
        self.n_grains = n_grains
        self.step_hook = step_hook


def make_lsoda(plan: LsodaPlan, log: list):
    """Returns a class standing in for scipy.integrate.LSODA.

    Contract assumed of the real solver: after a successful step `y` is an arbitrary finite vector
    of the same length (here: fresh symbols) whose volume block has a positive clipped sum (LSODA
    with the tolerances used never drives every fraction to <= 0); `status` is 'running' until the
    final step, then 'finished'; a failed step sets status 'failed' and returns a message.
    """

    class LSODA:
        def __init__(self, fun, t0, y0, t_bound, **kw):
            self.fun, self.t0, self.t_bound, self.kw = fun, t0, t_bound, kw
            self.y0_arg = y0
            self.y = sarr(y0)  # the solver works on its own copy of the initial vector
            self.t = t0
            self.status = "running"
            self.nstep = 0
            self.rhs_values = []
            self.id = len(log)
            log.append(self)

        def step(self):
            self.nstep += 1
            k = self.nstep
            if plan.raise_at == k:
                raise RuntimeError("stub: the right-hand side raised inside the solver")
            if plan.fail_at == k:
                self.status = "failed"  # t and y stay at the last accepted step, as in scipy
                return "stub: step failed"
            if plan.eval_rhs_each_step:
                self.rhs_values.append((self.t, self.y.copy(), self.fun(self.t, self.y.copy())))
            n = len(self.y)
            new = np.empty(n, dtype=object)
            for i in range(n):
                new[i] = real(f"y!{self.id}!{k}!{i}")
            self.y = new.view(SArr)
            if plan.n_grains is not None:
                ng = plan.n_grains
                tot = R(0)
                for i in range(9 + 9 * ng, 9 + 10 * ng):
                    tot = tot + rmax(self.y[i], 0)
                sym.ctx().assume((tot > 0).z3())
            if plan.step_hook:
                plan.step_hook(self, k)
            if k >= plan.steps:
                self.status = "finished"
                self.t = self.t_bound
            else:
                # an accepted interior step: the solver's time moves strictly towards t_bound
                tk = real(f"tstep!{self.id}!{k}")
                prev, t0, tb = R(self.t), R(self.t0), R(self.t_bound)
                sym.ctx().assume(z3.Or(z3.And((t0 < tb).z3(), (prev < tk).z3(), (tk < tb).z3()), z3.And((t0 > tb).z3(), (prev > tk).z3(), (tk > tb).z3()),
                                       z3.And((t0 == tb).z3(), (tk == tb).z3())))
                self.t = tk
            return None

    return LSODA


# ---------------------------------------------------------------------------------------


def rng_stub_factory(log):
    """np.random.default_rng(seed).random(n): fresh u_i with 0 <= u_i < 1 (0.0 included)."""

    class Gen:
        def __init__(self, seed=None):
            self.seed = seed
            self.calls = 0

        def random(self, n=None):
            k = n if n is not None else 1
            out = np.empty(k, dtype=object)
            for i in range(k):
                u = real(f"u!{len(log)}!{self.calls}!{i}")
                sym.ctx().assume(z3.And((u >= 0).z3(), (u < 1).z3()))
                out[i] = u
            self.calls += 1
            log.append(out)
            return out.view(SArr) if n is not None else out[0]

    class RandomMod:
        @staticmethod
        def default_rng(seed=None):
            return Gen(seed)

    return RandomMod


# ---------------------------------------------------------------------------------------
# scipy.linalg.eigh / eigvalsh for 3x3 symmetric input (diagnostics)


def lower_completed(matrix):
    m = np.asarray(matrix, dtype=object)
    out = np.empty((3, 3), dtype=object)
    for i in range(3):
        for j in range(3):
            out[i, j] = R(m[i, j] if i >= j else m[j, i])  # LAPACK (lower=True) never reads the upper triangle
    return out.view(SArr)


class EigLa:
    """Stands in for `scipy.linalg` in pydrex.diagnostics.

    eigh contract: for the symmetric completion S of the *lower triangle* of the argument it returns
    ascending real eigenvalues l and an orthogonal V (rotation R(q) x optional reflection; sign and, for
    equal eigenvalues, choice of eigenvectors arbitrary) with S V = V diag(l). eigvalsh: the same l.
    """

    def __init__(self):
        self.calls = []

    def _decomp(self, matrix):
        from . import quat

        S = lower_completed(matrix)
        c = sym.ctx()
        n = len(self.calls)
        lam = [real(f"ev!{n}!{i}") for i in range(3)]
        q, unit = quat.quat(f"evq!{n}")
        sg = real(f"evs!{n}")
        c.assume(unit)
        c.assume(z3.Or((sg == 1).z3(), (sg == -1).z3()))
        V = quat.rotmat(q)
        D = sarr(np.eye(3))
        D[2, 2] = sg
        V = V @ D
        c.assume(z3.And((lam[0] <= lam[1]).z3(), (lam[1] <= lam[2]).z3()))
        SV = S @ V
        for i in range(3):
            for j in range(3):
                c.axiom((SV[i, j] == V[i, j] * lam[j]).z3())
        # consequences of the contract that help the solver (Vieta relations)
        tr = S[0, 0] + S[1, 1] + S[2, 2]
        c.axiom((lam[0] + lam[1] + lam[2] == tr).z3())
        rec = dict(arg=matrix, S=S, lam=lam, V=V, q=q, sg=sg, SV=SV)
        self.calls.append(rec)
        return rec

    def eigh(self, matrix, driver=None, **kw):
        if not has_sym(matrix):
            import scipy.linalg as la

            return la.eigh(matrix, driver=driver, **kw)
        r = self._decomp(matrix)
        return sarr(np.array(r["lam"], dtype=object)), r["V"]

    def eigvalsh(self, matrix, **kw):
        if not has_sym(matrix):
            import scipy.linalg as la

            return la.eigvalsh(matrix, **kw)
        r = self._decomp(matrix)
        return sarr(np.array(r["lam"], dtype=object))

    def norm(self, x, axis=None, **kw):
        from .sarr import _f_norm

        if not has_sym(x):
            import scipy.linalg as la

            return la.norm(x, axis=axis, **kw)
        return _f_norm(x, axis=axis)
