"""Replay counterexamples against the unmodified public API (this process runs with the JIT on).

stdin: JSON list of cases {replay: "<module>:<function>", case: {...}}; stdout: REPLAY-RESULTS <json>.
A replay function returns {"reproduced": bool, "detail": ...}.
"""

import importlib
import json
import sys
import traceback


def main():
    cases = json.load(sys.stdin)
    out = []
    for c in cases:
        try:
            modname, fname = c["replay"].split(":")
            mod = importlib.import_module(modname)
            r = getattr(mod, fname)(c["case"])
            out.append(r)
        except BaseException as e:  # noqa: BLE001
            frames = traceback.extract_tb(e.__traceback__)
            inner = frames[-1].filename if frames else ""
            in_pydrex = any(("/pydrex/" in f.filename.replace("\\", "/")) for f in frames[-3:])
            if in_pydrex and isinstance(e, Exception):
                # the replay only feeds inputs that are valid for the property: an exception escaping from the real
                # code on them is itself the failure (the replay's own mistakes surface outside pydrex frames)
                out.append({"reproduced": True, "detail": f"the real API raised {type(e).__name__}: {e} (innermost frame {inner})\n{traceback.format_exc()[-800:]}"})
            else:
                out.append({"reproduced": None, "detail": f"replay harness error {type(e).__name__}: {e}\n{traceback.format_exc()[-1500:]}"})
    print("REPLAY-RESULTS " + json.dumps(out, default=str))


if __name__ == "__main__":
    main()
