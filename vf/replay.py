"""Replay counterexamples against the unmodified public API (this process runs with the JIT on).

stdin: JSON list of cases {replay: "<module>:<function>", case: {...}}; stdout: REPLAY-RESULTS <json>.
A replay function returns {"reproduced": bool, "detail": ...}.
"""

import importlib
import json
import sys
import traceback


def main():
    cases = json.load(sys.stdin)
    out = []
    for c in cases:
        try:
            modname, fname = c["replay"].split(":")
            mod = importlib.import_module(modname)
            r = getattr(mod, fname)(c["case"])
            out.append(r)
        except BaseException as e:  # noqa: BLE001
            out.append({"reproduced": None, "detail": f"replay harness error {type(e).__name__}: {e}\n{traceback.format_exc()[-1500:]}"})
    print("REPLAY-RESULTS " + json.dumps(out, default=str))


if __name__ == "__main__":
    main()
