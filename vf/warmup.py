"""The checked process is not a fresh one.

Before the symbolic tasks are forked, the parent calls a spread of the public API once with ordinary concrete
inputs that differ from what the tasks use.  Code whose result silently depends on an earlier call in the same
process (a memo keyed too coarsely, a module-level default mutated in place, a cached velocity gradient ...) then
fails the tasks' claims, which a pristine interpreter would never show.  Nothing here is checked; exceptions are
recorded and ignored (on the unchanged tree there are none).
"""

from __future__ import annotations


def api_warmup():
    import numpy as np

    notes = []

    def attempt(label, fn):
        try:
            fn()
        except BaseException as e:  # noqa: BLE001
            notes.append(f"{label}: {type(e).__name__}: {str(e)[:80]}")

    try:
        import pydrex
        from pydrex import core, diagnostics, geometry, minerals, stats, tensors, utils, velocity
        from scipy.spatial.transform import Rotation
    except BaseException as e:  # noqa: BLE001
        return [f"import: {type(e).__name__}: {e}"]

    rng = np.random.default_rng(99)
    P, F, Rg = core.MineralPhase, core.MineralFabric, core.DeformationRegime
    A = Rotation.random(3, random_state=99).as_matrix()
    L = rng.normal(size=(3, 3))
    D = (L + L.T) / 2

    def kernels():
        for ph, fb in ((P.olivine, F.olivine_D), (P.enstatite, F.enstatite_AB), (P.olivine, F.olivine_B)):
            core.get_crss(ph, fb)
            for rg in (Rg.frictional_yielding, Rg.matrix_dislocation, Rg.matrix_diffusion, Rg.max_viscosity):
                core.derivatives(rg, ph, fb, 3, A.copy(), np.array([0.5, 0.3, 0.2]), D, L, np.eye(3) * 0.1, 1.3, 3.1, 2.0, 50.0, 0.4)

    def update():
        for rg, ph, fb in ((Rg.frictional_yielding, P.enstatite, F.enstatite_AB), (Rg.matrix_dislocation, P.olivine, F.olivine_C)):
            m = pydrex.Mineral(phase=ph, fabric=fb, regime=rg, n_grains=3, seed=5)
            params = core.DefaultParams().as_dict()
            params.update(phase_assemblage=(P.enstatite, P.olivine), phase_fractions=(0.35, 0.65), gbs_threshold=0.2, number_of_grains=11)
            Fm = m.update_orientations(params, np.eye(3) + 0.01, lambda t, x: L * (1 + t), (0.0, 0.05, lambda t: np.array([t, 0.0, 0.0])))
            m.update_orientations(params, Fm, lambda t, x: L.T, (0.05, 0.08, lambda t: np.zeros(3)))
            pydrex.update_all([m], params, Fm, lambda t, x: L, (0.08, 0.09, lambda t: np.zeros(3)))

    def elastic():
        st = minerals.StiffnessTensors()
        X = rng.normal(size=(6, 6))
        st.olivine = st.olivine + (X + X.T)
        m = pydrex.Mineral(phase=P.olivine, n_grains=3, seed=2)
        e = pydrex.Mineral(phase=P.enstatite, fabric=F.enstatite_AB, n_grains=3, seed=3)
        pydrex.voigt_averages([e, m], [P.enstatite, P.olivine], [0.25, 0.75], st)
        pydrex.voigt_averages([m], [P.olivine], [1.0])
        C = tensors.elastic_tensor_to_voigt(tensors.rotate(tensors.voigt_to_elastic_tensor(st.enstatite), A[0]))
        diagnostics.elasticity_components(np.array([C, st.olivine]))
        v = tensors.voigt_matrix_to_vector(C)
        tensors.voigt_vector_to_matrix(v)
        for proj in (tensors.mono_project, tensors.ortho_project, tensors.tetr_project, tensors.hex_project):
            proj(v)
        tensors.polar_decompose(L)
        tensors.polar_decompose(L, left=False)
        tensors.invariants_second_order(L)
        tensors.voigt_decompose(C)

    def textures():
        T = Rotation.random(12, random_state=7).as_matrix()
        for ax in "abc":
            diagnostics.symmetry_pgr(T, axis=ax)
            diagnostics.bingham_average(T, axis=ax)
        diagnostics.coaxial_index(T, axis1="c", axis2="b")
        diagnostics.finite_strain(np.eye(3) + L * 0.1)
        diagnostics.smallest_angle(np.array([0.0, 0.6, 0.8]), np.array([1.0, 0.0, 0.0]))
        for sysm in (geometry.LatticeSystem.triclinic, geometry.LatticeSystem.orthorhombic):
            diagnostics.misorientation_index(T[:5], sysm)
        stats.resample_orientations(T.reshape(2, 6, 3, 3), np.full((2, 6), 1 / 6), n_samples=4, seed=3)
        utils.apply_gbs(T[:4].copy(), np.array([0.05, 0.05, 0.4, 0.5]), 0.5, T[4:8].copy(), 4)
        utils.extract_vars(np.arange(9 + 10 * 2, dtype=float) / 30, 2)
        utils.strain_increment(0.3, L)
        utils.quat_product(np.array([0.5, 0.5, 0.5, 0.5]), np.array([0.0, 0.6, 0.0, 0.8]))

    def geometry_():
        r, ph, th = geometry.to_spherical(np.array([0.3, -1.0]), np.array([0.4, 2.0]), np.array([-1.2, 0.5]))
        geometry.to_cartesian(ph, th, r)
        geometry.to_cartesian(ph, th)
        T = Rotation.random(6, random_state=8).as_matrix()
        for ref in ("zy", "yx"):
            geometry.poles(T, ref_axes=ref, hkl=[0, 1, 1])
        x, y, z = geometry.poles(T)
        geometry.lambert_equal_area(x, y, -np.abs(z))
        for k in ("kamb_count", "linear_inverse_kamb", "schmidt_count"):
            stats.point_density(x, y, z, gridsteps=5, kernel=k, axial=False)
        for a, b in (("Z", "Y"), ("Y", "X")):
            for mk in (lambda: velocity.simple_shear_2d(a, b, 0.3), lambda: velocity.cell_2d(a, b, 0.7, 1.5), lambda: velocity.corner_2d(a, b, 0.9)):
                u, g = mk()
                u(np.nan, np.array([0.2, 0.3, 0.4]))
                g(np.nan, np.array([0.2, 0.3, 0.4]))

    def params_():
        d = core.DefaultParams().as_dict()
        d["phase_fractions"] = [0.1, 0.9]
        d["number_of_grains"] = 1
        from pydrex import mock

        for name in dir(mock):
            obj = getattr(mock, name)
            if isinstance(obj, type) and hasattr(obj, "as_dict"):
                obj().as_dict()

    def files_():
        # configuration, SCSV and NPZ files with NON-default contents, written and read back in a scratch directory
        import os
        import shutil
        import tempfile

        import pydrex.io as pio

        d = tempfile.mkdtemp(prefix="vf_warm_")
        cwd = os.getcwd()
        try:
            os.chdir(d)
            schema = {"delimiter": ";", "missing": "NA", "fields": [{"name": "p", "type": "string", "fill": "none"}, {"name": "q", "type": "integer", "fill": -7},
                                                                  {"name": "r", "type": "float", "fill": float("nan")}, {"name": "s", "type": "boolean"}]}
            pio.save_scsv("w.scsv", schema, [["u", "none", "w w"], [1, -7, 3], [0.5, float("nan"), float("inf")], [True, False, True]])
            pio.read_scsv("w.scsv")
            pio.save_scsv("start.scsv", {"delimiter": ",", "missing": "-", "fields": [{"name": "X", "type": "float", "fill": float("nan")}, {"name": "Z", "type": "float", "fill": float("nan")}]}, [[1.0], [2.0]])
            with open("w.toml", "w") as f:
                f.write('name = "warm"\n[input]\nvelocity_gradient = ["cell_2d", "X", "Z", 2.0, 1e-6]\nlocations_initial = "start.scsv"\ntimestep = 1e7\n'
                        '[output]\ndirectory = "out"\nraw_output = ["enstatite"]\ndiagnostics = ["olivine"]\nanisotropy = ["Voigt"]\nlog_level = "ERROR"\n'
                        '[parameters]\nphase_assemblage = ["enstatite", "olivine"]\nphase_fractions = [0.25, 0.75]\ninitial_olivine_fabric = "D"\nstress_exponent = 2.0\n'
                        'deformation_exponent = 4.5\ngbm_mobility = 10\ngbs_threshold = 0.1\nnucleation_efficiency = 3.0\nnumber_of_grains = 77\n')
            pio.parse_config("w.toml")
            m = pydrex.Mineral(phase=P.enstatite, fabric=F.enstatite_AB, regime=Rg.frictional_yielding, n_grains=4, seed=11)
            m.save("w.npz")
            m.save("w2.npz", postfix="warm")
            pydrex.Mineral(n_grains=9, seed=1).load("w.npz")
            pydrex.Mineral.from_file("w2.npz", postfix="warm")
        finally:
            os.chdir(cwd)
            shutil.rmtree(d, ignore_errors=True)

    for label, fn in (("kernels", kernels), ("update", update), ("elastic", elastic), ("textures", textures), ("geometry", geometry_), ("params", params_), ("files", files_)):
        attempt(label, fn)
    return notes
