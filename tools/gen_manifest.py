#!/usr/bin/env python3
"""Regenerates MANIFEST.json from the table below (keeps it valid at all times)."""
import json, os

HERE = os.path.dirname(os.path.dirname(os.path.abspath(__file__)))
SYMX = "symbolic execution of the real Python source (NUMBA_DISABLE_JIT=1, module-level names rebound to proxies over z3 terms), every clause an SMT query (z3), counterexamples replayed on the compiled public API"

CHECKS = {
    "C01": dict(text="inductive step: real update_orientations from an arbitrary valid stored history with a nondeterministic LSODA (arbitrary finite state after each of <= 3 steps): one valid snapshot appended, earlier snapshots untouched and unaliased; extract_vars contract for arbitrary state vectors; rhs purity; orientation rates tangent to SO(3) (dA A^T + A dA^T = 0 at every rotation state) for every accepted regime through the real eval_rhs/derivatives; symbolic-seed plumbing of the initial snapshot; the contract assumed for the grain kernel in the dislocation-type regimes (rate = A . skew on every path of the real kernel, all six fabrics) is proved in the same run. One genuine defect (matrix_diffusion rate not tangent) recorded as a known finding.",
                note="exact real arithmetic; LSODA replaced by a nondeterministic stub (contract: finite state, positive clipped volume sum); n_grains <= 3 (quick) / 4 (thorough); the size of the orthonormality drift (LSODA error) and scipy's Rotation.random are outside the claim (first-order tangency and seed plumbing are decided)",
                tech="symbolic execution of real source + SMT (z3), inductive invariant, nondeterministic solver stub"),
    "C03": dict(text="all feasible paths of the real grain kernel for the 6 (phase, fabric) pairs over all unit quaternions, velocity gradients and parameters: every division/power is defined (no exception, finite), the rate is A composed with a skew spin; real derivatives with the kernel stubbed: zero net volume change, dead grains, linearity in M* and phi, growth criterion.",
                note="exact reals; x**y and exp are uninterpreted with sign/zero axioms; one grain for the kernel, n_grains <= 3/4 for the aggregate; path feasibility pruning treats solver-unknown as feasible",
                tech="symbolic execution of real source + SMT (z3), definedness obligations, compositional contracts"),
    "C05": dict(text="real update_orientations run for (L, [t0,t1]) and (kL(kt), [t0/k,t1/k]) with symbolic k > 0 in one execution; rhs captured through the LSODA stub, evaluated once at an arbitrary time and state and then compared at another arbitrary state (so state kept between evaluations shows): identical kernel arguments, rhs' = k rhs on all three blocks, identical initial vector, span-relative first step, k-independent tolerances.",
                note="exact reals; spectral radius is an uninterpreted positively homogeneous function; grain kernel stubbed as a deterministic function (D = 0 => 0 proved on the real kernel); agreement of two actual LSODA runs at rounding level is outside the claim",
                tech="symbolic execution of real source + SMT (z3), relational (two-run) harness with contracts"),
    "C06": dict(text="F block of the real rhs equals L(t, x(t)) @ F (order, row-major, time and position) for arbitrary state and uninterpreted L, x; it mentions no mineral/parameter symbol; initial vector starts with the supplied F; returned F is the solver's final F block untouched by the GBS write-back; update_all feeds the same F to all minerals and returns the last result.",
                note="exact reals; LSODA accuracy (the tolerance bound, det F, split intervals) outside the claim",
                tech="symbolic execution of real source + SMT (z3)"),
    "C07": dict(text="real derivatives: viscosity-bound regimes return identically zero rates; symbolic regime/phase/fabric ordinals: exactly the unsupported or invalid ones raise ValueError, also through the real solver and kernel for every input (symbolic unsupported pair: every path raises); real rhs with L = 0 (real kernel, 3-6 fabrics x 2 regimes) is zero and defined; failed solver steps / exceptions leave the stored history untouched.",
                note="exact reals; eigvalsh through its spectral-radius contract; LSODA failure modelled as status 'failed' or an exception at a chosen step",
                tech="symbolic execution of real source + SMT (z3) with symbolic integer ordinals"),
    "C08": dict(text="for both phases and all orderings of the assemblage (tuple and list), the volume fraction reaching the CPO solver is the mineral's own; every other argument and the initial vector are assemblage-independent; phi enters only as phi*M* (real derivatives); minerals share no state; update_all order-independent inputs.",
                note="exact reals; derivatives stubbed as recorder for the argument checks; bit-identity of two Fortran LSODA runs assumed (determinism)",
                tech="symbolic execution of real source + SMT (z3)"),
    "C09": dict(text="real apply_gbs for N = 2..3 (5 thorough) symbolic grains: strict threshold mask, exact reference orientation for floored grains, floor chi/N before renormalisation, proportionality, sum 1, lower bound chi/(N(1+chi)), order preservation, chi = 0 identity, ties; call site in the real update: reference is the start-of-update snapshot object at every solver step, stored snapshot equals the last GBS output.",
                note="exact reals; N bounded; LSODA stub as in C01",
                tech="symbolic execution of real source + SMT (z3)"),
    "C02": dict(text="each real helper of the grain kernel (CRSS rows, slip invariants, slip-rate ratios for all 24 activity orders x 5 fabrics, Schmid tensor, least-squares softest slip rate with its 1e-15 guard, lattice spin, dislocation-density energy) on free symbolic arguments equals the reference model written from the cited papers; the real kernel with recording stubs wires the stages as the model prescribes on every path; real derivatives adds the migration law and the 0.3 yielding factor.",
                note="exact reals; pow/exp uninterpreted (same symbols on both sides); ties in activity excluded by strict path conditions; JIT-vs-interpreter agreement is sampled (40/400 inputs), not decided",
                tech="symbolic execution of real source + SMT (z3), differential check against a reference model, compositional contracts"),
    "C04": dict(text="staged on the real helpers with Q = R(r) over all unit quaternions and the three lattice two-folds: invariants, slip rates (sign vector), Schmid tensor, softest rate (via its proved characterisation), spin, energy each obey their transformation law; kernel wiring (C02 glue); real rhs of the update for (L,F,A) vs (QLQ^T, QF, AQ^T) with the kernel replaced by its proved contract: F block and orientation rates co-rotate, volume rates unchanged.",
                note="exact reals; spectral radius invariance under conjugation assumed (environment); integrated textures follow for the exact flow only (LSODA's elementwise atol is not frame invariant)",
                tech="symbolic execution of real source + SMT (z3), assume-guarantee staging, polynomial normal forms modulo unit quaternions"),
    "C10": dict(text="real voigt_averages on real Mineral objects with symbolic textures for all six assemblage/mineral orderings, built-in and fully symbolic stiffnesses (the record used once and then edited in place): equals the phase-identity-indexed weighted sum of rotated tensors, symmetric, texture-independent K and shear invariants, co-rotation (axis generators), aligned grain, rejection of mismatched counts (symbolic ints).",
                note="exact reals; 1-2 grains, 1-2 snapshots; general-Q co-rotation by composition with C11's group action",
                tech="symbolic execution of real source + SMT (z3), polynomial normal forms"),
    "C12": dict(text="real elasticity_components executed up to its first eigen-decomposition on a general 21-parameter tensor: K, G are the isotropic invariants, the two contractions are C_ijkk / C_ikjk, the isotropic vector is the orthogonal projection (Pythagoras, so the percentage lies in [0,100]); K, G invariant under rotations about each coordinate axis (generators); full real function on orthorhombic tensors for enumerated LAPACK eigenvector orders/signs: monoclinic/triclinic parts vanish, squared percentages add up, axis is a principal axis; the pair (C0, C0 in a frame rotated by an exact rational rotation Q) through one call: all numbers equal, axis = +-Q axis0 (3 rotations quick, 7 x 4 eigenvector orders thorough).",
                note="exact reals; la.norm/eigh by contract; frame-independence of class percentages for general (non-orthorhombic) tensors depends on LAPACK's eigenvector selection and is outside the claim; one degenerate path (no permutation accepted) is reported as optional-inconclusive",
                tech="symbolic execution of real source + SMT (z3), cut at the LAPACK boundary, polynomial normal forms"),
    "C13": dict(text="real _scatter_matrix / symmetry_pgr / bingham_average / coaxial_index / finite_strain / angle_fse_simpleshear on symbolic textures (2-3 grains, all unit quaternions) and deformation gradients with LAPACK eigh/eigvalsh replaced by its contract: row selection, PSD, permutation / two-fold / frame covariance, P,G,R in [0,1] summing to 1 with descending order, Bingham = last eigenvector column, BA in [0,1], left Cauchy-Green tensor and its covariance, simple-shear angle.",
                note="exact reals; eigen-decomposition by contract (S V = V diag(l), V orthogonal, ascending); N <= 3",
                tech="symbolic execution of real source + SMT (z3), eigen-decomposition contract stub, polynomial normal forms"),
    "C14": dict(text="partial (misorientation kernel): real quat_product vs the Hamilton product; every operator of every lattice system acts as left multiplication by a unit quaternion (for all q) and the sets are closed under composition (exhaustive); real misorientation_hist pipeline for 3 triclinic grains: datum = |clip(<q_i,q_j>)|, invariant under frame rotation and reordering; real misorientation_index over an arbitrary histogram/theoretical density obeying their contracts: M = (theta_max/2k) sum |theory - observed| over the bins' own edges (after the indices of all other lattice systems have been computed in the same process), 0 <= M <= (1 + Q)/2; Q (quadrature of the real theoretical density, one number per system) evaluated on the real function; batched variant with a contract pool (4 stack lengths x 5 pool configurations). 14 genuine defects are recorded as known findings.",
                note="exact reals; Rotation.as_quat, arccos monotonicity, np.histogram and Pool.imap by contract; the ~0 / ~1 limits for random / single-orientation textures and binning for 2000 grains are outside the claim",
                tech="symbolic execution of real source + SMT (z3); finite operator tables enumerated exhaustively"),
    "C15": dict(text="real resample_orientations with the RNG replaced by arbitrary variates in [0,1): all paths (volume orders x search positions) for M <= 3 grains: every output pair is one input grain's pair, zero-volume grains never drawn, the variate lies in the drawn grain's cumulative-volume interval (probability = volume), shapes, seed plumbing; shape validation with symbolic extents for 3-5-d / 1-3-d inputs.",
                note="exact reals; M <= 3 (4 thorough), n_samples <= 2; convergence of sample statistics outside the claim",
                tech="symbolic execution of real source + SMT (z3), nondeterministic RNG stub, symbolic integer shapes"),
    "C16": dict(text="CrossHair contracts over the real save_scsv / write_scsv_header / _validate_scsv_schema / _parse_scsv_cell (I/O stand-ins): cell round trips for string (len<=3, symbolic fill len<=3 and a table of special fills such as 'NaN'), integer (incl. integers beyond 2^53), float (incl. NaN, +-inf, -0.0), boolean cells with symbolic missing markers, refusal of unequal columns; rows (symbolic cells and marker, all-fill row) through the real read_scsv loop for comma / tab / semicolon delimiters and for one-column tables; z3 string theory: one witness per YAML implicit resolver of the installed PyYAML, replayed through real files.",
                note="bounded string lengths and value selectors as stated in each contract's pre-conditions; schema-validation contracts may stay 'Not confirmed' within the budget (reported as optional-inconclusive); csv field fidelity and float repr round trip assumed",
                tech="CrossHair symbolic execution (z3) of the real Python source; z3 regular-expression / string queries; replay through real files",
                engine="crosshair"),
    "C17": dict(text="real Mineral.save / load / from_file with the archive layer replaced by a dict-backed stand-in: keys written/read for any postfix, key collision freedom for all postfix strings (z3 strings), packing order and uint8 range of symbolic enum ordinals, restoration of snapshots and grain count by both loaders for 1-3 minerals under distinct postfixes in any order, corrupt state (first or later snapshot) rejected before any archive call under numpy's conversion contract, non-.npz names rejected.",
                note="archive contract (a key reads back the stored object); bit-exactness of float64 through np.save/zip and real files are numpy's contract and outside the claim",
                tech="symbolic execution of real source + SMT (z3 ints / strings) with an archive stand-in"),
    "C18": dict(text="partial (flow kernels and helpers): Jacobian of the real velocity kernels by dual numbers vs the paired gradient kernels for simple shear, Stokes cell and corner flow (3-6 axis pairs, symbolic position and parameters), trace, domain errors; strain_increment (= |dt| x spectral radius of the symmetric part, decided through the eigen-routine contract or, when none is called, directly as root + definiteness conditions); _is_inside / _ivp_func / _ivp_jac; constructor axis validation (exhaustive); get_pathline around a nondeterministic solve_ivp obeying scipy's contract: what is integrated (helper, Jacobian, start point, backward span, terminal event, keywords), timestamps strictly increasing ending at exactly 0 for raw and regular resampling, interpolant identity; the terminal strain/domain event for arbitrary evaluation orders. 4 genuine defects recorded as known findings (pinned by doctests), matched by exact entry and value.",
                note="exact reals; derivative rules of the dual-number shim and trig contracts are trusted; solve_ivp only by contract (t[0] = t_span[0], monotone nodes, dense interpolant): accuracy of the integrated curve (dx/dt = u, staying in the box) and the 1.25 x slack of the event location are outside the claim",
                tech="symbolic execution of real source with dual numbers + SMT (z3); nondeterministic solve_ivp stub"),
    "C19": dict(text="default record and all presets enumerated completely (every preset x every declared attribute, attribute and dict form); real _parse_config_params / parse_config tail / _parse_config_input_common executed with symbolic presence flags for every optional key, symbolic phase fractions, valid and invalid phase names / fabric strings (derived from the enumeration's own member names; the parsed value must be the olivine member of that letter), plus a finite table of special values (NaN / infinite fractions, wrongly typed fabric): only ConfigError may be raised and only for documented violations, every omitted key takes its documented default, result invariants.",
                note="file readers (tomllib, open, resolve_path, meshio.read, read_scsv, np.load) replaced by recording stand-ins; the three input modes are decided for every subset of the mode keys (required companions assumed present)",
                tech="symbolic execution of real source + SMT (z3) with presence-flag dictionaries; finite tables enumerated exhaustively"),
    "C20": dict(text="real to_spherical/to_cartesian round trip and colatitude convention under trig contracts; poles for all six reference-axes strings (2 grains, symbolic hkl); Lambert projection (masked-array path forked); point_density for the five kernels on a 3x3 grid with 2 symbolic data and a symbolic positive scalar weight: normalisation, clipping, grid in disk, order and sign invariance.",
                note="exact reals; trig/exp by contract; gridsteps = 3, 2 data; non-zero raw grid mean assumed",
                tech="symbolic execution of real source + SMT (z3), trig contracts, polynomial normal forms"),
    "C11": dict(text="every function of pydrex/tensors.py on fully symbolic inputs (36/21 free entries, all 81 index tuples, R(q) over all unit quaternions): index maps, symmetries, contractions, inverse maps, isometry, rotation law, projector algebra, characteristic polynomial, polar decomposition under the SVD contract.",
                note="exact reals; sqrt(2) algebraic; numpy.linalg.svd/det/inv by contract; identities over two unit quaternions are normalised modulo |q|^2 = 1 before the query (normaliser validated at random rational points on every use)",
                tech="symbolic execution of real source + SMT (z3), polynomial normal forms modulo unit-quaternion equalities"),
}

NOT_APPLICABLE = {}


def main():
    props = [json.loads(l)["id"] for l in open(os.path.join(HERE, "properties.jsonl"))]
    checks = []
    for pid in props:
        c = CHECKS.get(pid)
        if not c:
            continue
        checks.append({
            "property_id": pid,
            "quick_cmd": f"bin/check {pid} --tier quick",
            "thorough_cmd": f"bin/check {pid} --tier thorough",
            "evidence_file": f"evidence/{pid}.json",
            "replay_cmd_template": f"bin/check {pid} --replay {{path}}",
            "engine": c.get("engine", "symx"),
            "level_claimed": {"category": "model_checking", "text": c["text"], "design_ref": f"DESIGN.md section 3/{pid}"},
            "level_note": c["note"],
            "technique": c["tech"],
        })
    na = [{"property_id": p, "reason": NOT_APPLICABLE.get(p, "check not built yet in this session (see DESIGN.md section 3 for the planned encoding)")} for p in props if p not in CHECKS]
    man = {
        "version": 1,
        "setup_cmd": "bin/setup",
        "hooks": {
            "guard": "PYDREX_VERIF",
            "enable": "no source hooks: checks import pydrex from /repo/src with NUMBA_DISABLE_JIT=1 and rebind module-level names (np, la, LSODA, callees) inside the checker process only",
            "baseline_off_cmd": "cd /repo && /venv/bin/python -m pytest -ra -q -p no:cacheprovider --timeout=900 --continue-on-collection-errors",
            "source_commits": [],
            "add_only": True,
        },
        "engines": [
            {"name": "symx", "path": "vf/", "serves_properties": [c["property_id"] for c in checks if c["engine"] == "symx"], "kind_free_text": SYMX},
            {"name": "crosshair", "path": "vf/ch/", "serves_properties": [c["property_id"] for c in checks if c["engine"] == "crosshair"],
             "kind_free_text": "CrossHair 0.0.110 contract checking (symbolic execution of Python over z3) of contract functions that call the real pydrex.io code; counterexamples replayed through real files"},
        ],
        "checks": checks,
        "notes": "exit 0 = held on everything explored (KNOWN-FINDING lines are not alarms); exit 1 = VIOLATION (replayed on the real compiled API); exit 2 = a core obligation was inconclusive (solver unknown / spurious model / unreached harness) -- never reported as success; exit 3 = harness error. known_findings.json lists recorded defects and fixed: entries.",
        "not_applicable": na,
    }
    with open(os.path.join(HERE, "MANIFEST.json"), "w") as f:
        json.dump(man, f, indent=1)
    print("wrote MANIFEST.json with", len(checks), "checks;", len(na), "not applicable")


if __name__ == "__main__":
    main()
