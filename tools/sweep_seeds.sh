#!/bin/sh
# Re-runs every seeded change against the current checks: apply patch in /repo, run the quick check, undo.
# Writes /verif/seeded/SWEEP.txt (seed, property, patch applies?, check exit code, seconds).
cd /verif
WT=/tmp/wt/sweep
git -C /repo worktree remove --force $WT 2>/dev/null
git -C /repo worktree add -q --detach $WT HEAD || exit 9
export VERIF_PYDREX_SRC=$WT/src
OUT=/verif/seeded/SWEEP.txt
echo "# seed property applies check_exit seconds   ($(date -u +%FT%TZ), repo $(git -C /repo log --format=%h -1), verif $(git log --format=%h -1))" > $OUT
for d in seeded/*/; do
  sid=$(basename $d)
  [ -f "$d/patch.diff" ] || continue
  pid=$(python3 -c "import json;print(json.load(open('$d/meta.json'))['breaks_property'])")
  if git -C $WT apply --check "/verif/$d/patch.diff" 2>/dev/null; then
    git -C $WT apply "/verif/$d/patch.diff"
    s=$(date +%s)
    timeout 3600 bin/check $pid --tier quick > "$d/check.log" 2>&1; c=$?
    git -C $WT checkout -- .
    echo "$sid $pid yes $c $(( $(date +%s) - s ))" >> $OUT
  else
    echo "$sid $pid no - -" >> $OUT
  fi
done
git -C /repo worktree remove --force $WT
cat $OUT
