#!/bin/sh
# usage: tools/all_quick.sh [tier]   -- runs every registered check once against /repo, one line per property
TIER="${1:-quick}"
cd /verif
rc=0
for p in C01 C02 C03 C04 C05 C06 C07 C08 C09 C10 C11 C12 C13 C14 C15 C16 C17 C18 C19 C20; do
  s=$(date +%s)
  bin/check $p --tier "$TIER" > /verif/.last_$p.log 2>&1; e=$?
  echo "$p exit=$e $(( $(date +%s) - s ))s $(grep -c '^VIOLATION' /verif/.last_$p.log) violations"
  [ $e -ne 0 ] && rc=1
done
exit $rc
