#!/bin/sh
# Parallel version of sweep_seeds.sh: every seeded change gets its own scratch copy of /repo's HEAD, the patch is applied there
# and the property's quick check analyses that copy (VERIF_PYDREX_SRC); /repo and evidence/ are never touched.
# usage: tools/sweep_seeds_par.sh [jobs]   -> writes seeded/SWEEP.txt
cd /verif
J="${1:-4}"
OUT=/verif/seeded/SWEEP.txt
TMPD=$(mktemp -d /tmp/sweep.XXXXXX)
one() {
  d="$1"; sid=$(basename "$d")
  [ -f "$d/patch.diff" ] || exit 0
  pid=$(python3 -c "import json;print(json.load(open('$d/meta.json'))['breaks_property'])")
  WT="$TMPD/$sid"
  git -C /repo worktree add -q --detach "$WT" HEAD || { echo "$sid $pid worktree-failed - -" > "$TMPD/$sid.res"; exit 0; }
  if git -C "$WT" apply "/verif/$d/patch.diff" 2>/dev/null; then
    s=$(date +%s)
    VERIF_PYDREX_SRC="$WT/src" VERIF_EVIDENCE_DIR="$TMPD/ev_$sid" timeout 3600 bin/check "$pid" --tier quick > "$d/check.log" 2>&1; c=$?
    echo "$sid $pid yes $c $(( $(date +%s) - s ))" > "$TMPD/$sid.res"
  else
    echo "$sid $pid no - -" > "$TMPD/$sid.res"
  fi
  git -C /repo worktree remove --force "$WT"
}
export TMPD
for d in seeded/*/; do echo "$d"; done | xargs -P "$J" -I{} sh -c "$(typeset -f one 2>/dev/null || declare -f one); one {}"
echo "# seed property applies check_exit seconds   ($(date -u +%FT%TZ), repo $(git -C /repo log --format=%h -1), verif $(git log --format=%h -1))" > $OUT
cat $TMPD/*.res | sort >> $OUT
rm -rf "$TMPD"; git -C /repo worktree prune
cat $OUT
