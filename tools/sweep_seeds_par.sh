#!/bin/sh
# Parallel version of sweep_seeds.sh: every seeded change gets its own scratch copy of /repo's HEAD, the patch is applied there
# and the property's quick check analyses that copy (VERIF_PYDREX_SRC); /repo and evidence/ are never touched.
# usage: tools/sweep_seeds_par.sh [jobs]   -> writes seeded/SWEEP.txt
cd /verif
J="${1:-4}"
OUT=/verif/seeded/SWEEP.txt
TMPD=$(mktemp -d /tmp/sweep.XXXXXX)
for d in seeded/*/; do echo "$d"; done | xargs -P "$J" -I{} tools/sweep_one.sh {} "$TMPD"
echo "# seed property applies check_exit seconds   ($(date -u +%FT%TZ), repo $(git -C /repo log --format=%h -1), verif $(git log --format=%h -1))" > $OUT
cat $TMPD/*.res | sort >> $OUT
rm -rf "$TMPD"; git -C /repo worktree prune
cat $OUT
