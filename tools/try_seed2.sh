#!/bin/sh
# usage: tools/try_seed2.sh <seed-id> <property-id> <worktree> [demo-name]
# Like try_seed.sh, but the property check analyses the scratch worktree itself (VERIF_PYDREX_SRC) instead of
# applying the patch in /repo, so several seeds can be tried in parallel and /repo and evidence/ are never touched.
# (tools/sweep_seeds.sh and the final confirmation use the same mechanism; `git -C /repo apply` + bin/check is equivalent.)
set -u
SID="$1"; PID="$2"; WT="$3"; DEMO="${4:-demo_$PID.py}"
OUT=/verif/seeded/$SID
mkdir -p "$OUT"
cd "$WT" || exit 9
git diff -- src > "$OUT/patch.diff"
cp "$DEMO" "$OUT/" 2>/dev/null
cp notes.txt "$OUT/agent_notes.txt" 2>/dev/null
SCR=$(mktemp -d /tmp/try_seed.XXXXXX)
# the demo and the suite run on a second scratch copy so the worktree itself stays as the agent left it
git -C /repo worktree add -q --detach "$SCR/wt" HEAD || exit 9
cp "$DEMO" "$SCR/wt/"
( cd "$SCR/wt" && export TMPDIR="$SCR" PYTHONPATH="$SCR/wt/src" && /venv/bin/python "$DEMO" > "$OUT/demo_without.log" 2>&1; echo $? > "$SCR/wo" )
( cd "$SCR/wt" && git apply "$OUT/patch.diff" && export TMPDIR="$SCR" PYTHONPATH="$SCR/wt/src" && /venv/bin/python "$DEMO" > "$OUT/demo_with.log" 2>&1; echo $? > "$SCR/w"
  if [ "${SKIP_SUITE:-0}" = 1 ]; then echo skipped > "$SCR/s"; else /venv/bin/python -m pytest -q -p no:cacheprovider --timeout=900 -n 4 > "$OUT/suite.log" 2>&1; tail -1 "$OUT/suite.log" > "$SCR/s"; fi )
W=$(cat "$SCR/w"); WO=$(cat "$SCR/wo"); S=$(cat "$SCR/s")
echo "demo with=$W without=$WO suite: $S"
cd /verif
VERIF_PYDREX_SRC="$SCR/wt/src" VERIF_EVIDENCE_DIR="$SCR/ev" bin/check "$PID" --tier quick > "$OUT/check.log" 2>&1; C=$?
git -C /repo worktree remove --force "$SCR/wt"; rm -rf "$SCR"
echo "check exit=$C"; grep -E "^VIOLATION|^KNOWN|INCONCLUSIVE|HARNESS" "$OUT/check.log" | cut -c1-300 | head -5; tail -1 "$OUT/check.log" | cut -c1-300
echo "{\"demo_with\": $W, \"demo_without\": $WO, \"suite\": \"$S\", \"check_exit\": $C}" > "$OUT/confirm.json"
