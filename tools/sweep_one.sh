#!/bin/sh
# usage: tools/sweep_one.sh <seeded/dir/> <tmpdir>   (helper of sweep_seeds_par.sh)
d="$1"; TMPD="$2"; sid=$(basename "$d")
cd /verif
[ -f "$d/patch.diff" ] || exit 0
pid=$(python3 -c "import json;print(json.load(open('$d/meta.json'))['breaks_property'])")
WT="$TMPD/$sid"
git -C /repo worktree add -q --detach "$WT" HEAD || { echo "$sid $pid worktree-failed - -" > "$TMPD/$sid.res"; exit 0; }
if git -C "$WT" apply "/verif/$d/patch.diff" 2>/dev/null; then
  s=$(date +%s)
  VERIF_PYDREX_SRC="$WT/src" VERIF_EVIDENCE_DIR="$TMPD/ev_$sid" timeout 3600 bin/check "$pid" --tier quick > "$d/check.log" 2>&1; c=$?
  echo "$sid $pid yes $c $(( $(date +%s) - s ))" > "$TMPD/$sid.res"
else
  echo "$sid $pid no - -" > "$TMPD/$sid.res"
fi
git -C /repo worktree remove --force "$WT"
