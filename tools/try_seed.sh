#!/bin/sh
# usage: tools/try_seed.sh <seed-id> <property-id> <worktree> [demo-name]
# Confirms a seeded breaking change (demo fails with it, passes without, test suite passes with it),
# stores it under /verif/seeded/<seed-id>/ and runs the property's quick check against it in /repo.
set -u
SID="$1"; PID="$2"; WT="$3"; DEMO="${4:-demo_$PID.py}"
OUT=/verif/seeded/$SID
mkdir -p "$OUT"
cd "$WT" || exit 9
git diff -- src > "$OUT/patch.diff"
cp "$DEMO" "$OUT/" 2>/dev/null
cp notes.txt "$OUT/agent_notes.txt" 2>/dev/null
export PYTHONPATH="$WT/src"
SCR=$(mktemp -d /tmp/try_seed.XXXXXX); export TMPDIR="$SCR"
echo "== demo with the change"; /venv/bin/python "$DEMO" > "$OUT/demo_with.log" 2>&1; W=$?; echo "exit=$W"
git stash -q -- src
echo "== demo without the change"; /venv/bin/python "$DEMO" > "$OUT/demo_without.log" 2>&1; WO=$?; echo "exit=$WO"
git stash pop -q
if [ "${SKIP_SUITE:-0}" = 1 ]; then S="skipped"; else
echo "== test suite with the change"; /venv/bin/python -m pytest -q -p no:cacheprovider --timeout=900 -n 8 > "$OUT/suite.log" 2>&1; tail -1 "$OUT/suite.log"; S=$(tail -1 "$OUT/suite.log"); fi
unset PYTHONPATH
unset TMPDIR; rm -rf "$SCR"
echo "== property check against the change (in /repo)"
cd /repo && git apply "$OUT/patch.diff" || { echo "PATCH DOES NOT APPLY"; exit 8; }
cd /verif && bin/check "$PID" --tier quick > "$OUT/check.log" 2>&1; C=$?
git -C /repo checkout -- .
echo "check exit=$C"; grep -E "^VIOLATION|^KNOWN|INCONCLUSIVE|HARNESS" "$OUT/check.log" | cut -c1-300 | head -5; tail -1 "$OUT/check.log" | cut -c1-300
echo "{\"demo_with\": $W, \"demo_without\": $WO, \"suite\": \"$S\", \"check_exit\": $C}" > "$OUT/confirm.json"
